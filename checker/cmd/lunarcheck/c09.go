package main

import (
	"fmt"
	"go/token"
	"go/types"
	"strings"

	"golang.org/x/tools/go/ssa"
)

const (
	pkgLimit    = "lunar/engine/utils/limit"
	pkgRemedies = "lunar/engine/services/remedies"
)

func init() {
	register(&Property{
		ID:   "C09",
		Mods: []string{modEngine},
		Explanation: "Decides structural necessary conditions of the policy-mode throttling bound, not the bound over histories: " +
			"(R1) counter/spillover/window fields and the per-limiter state map are only touched under their mutex (must-lockset with caller-held fixpoint); " +
			"(R2) the only increment of the counter executes on the edge counter < max and stores counter+1, Block is returned exactly on counter >= max, Proceed only after the increment, nobody else writes the counter; " +
			"(R3) max is ceil((allowed+spillover)*ratio); (R4) the window reset (counter=0, new end) executes on the edge now >= stored exclusive window end and the new end is the epoch-grid end; " +
			"(R5) limiter state is looked up/stored under the caller's unmodified key and the key is built from remedy name + group header value; " +
			"(R6) Block maps to the rejection action carrying configured-or-429 status, Proceed to NoOp. " +
			"NOT decided: float rounding of the ratio, spill-over accounting over days, window size changes between requests, the count over whole histories.",
		RuleText: "obligation = (rule, anchored construct) evaluated on SSA of the current tree: edge-dominance of a normalised comparison over a store/return, must-lockset at each access of a guarded field, who-writes inventory, value provenance by access path; distinct = distinct obligation keys; non-trivial = inspected at least one instruction",
		Run:      runC09,
	})
}

func runC09(w *World, r *Report) {
	hrRemedyChainWalksAll(w, r, "R6")
	hrWildcardConstant(w, r, "R6")
	hrVersionBumpReturnsPrevious(w, r, "R6")
	hrCfgEngineHeadersKept(w, r, "R7")
	// the remedy is found for the request: the policy-tree lookup (C13.R3)
	r.Borrow(w, runC13, map[string]string{"R3": "R6"})
	r.Borrow(w, c11ClockKeepsMonotonicReading, map[string]string{"R4": "R6"})
	hrTooManyRequestsStatus(w, r, "R6")
	hrIdentityHasher(w, r, "R5")
	hrRunOnRequestUpdates(w, r, "R6")
	// the fold of the remedy chain: an early response (the 429 of this plugin) wins over what earlier remedies built (C07.R2)
	r.Borrow(w, runC07, map[string]string{"R2": "R6"})
	hrEarlyResponseNotRewritten(w, r, "R6")
	hrNoDedupBeforeUniqueness(w, r, "R5")
	hrParseHeaders(w, r, "R5")
	la := NewLockAn(w)
	// R1 guarded-by
	checkGB(w, r, la, "R1", []GuardRow{
		{Pkg: pkgLimit, Struct: "singleRateLimitState", Fields: []string{"counter", "spillover", "windowData", "windowEndTime"}, Mutex: "mutex", MinSites: 15},
		{Pkg: pkgLimit, Struct: "RateLimitState", Fields: []string{"groupsStateByLimiter"}, Mutex: "mutex", MinSites: 4},
		{Pkg: pkgRemedies, Struct: "StrategyBasedThrottlingPlugin", Fields: []string{"definedQuotas"}, Mutex: "mutex", MinSites: 2},
	})

	isCounter := pathRe(`^param:state\.counter$`)
	isMax := func(v ssa.Value) bool {
		return Derives(v, func(x ssa.Value) bool { return isCallTo0(x, "math.Ceil") })
	}

	try := w.Fn(pkgLimit, "singleRateLimitState.TryToIncrement")
	if try == nil {
		r.Undec("R2", "TryToIncrement", token.NoPos, "function not found")
	} else {
		// R2 increment guarded by counter < max
		stores := fieldStores(try, "counter")
		if len(stores) == 0 {
			r.Undec("R2", "TryToIncrement/increment", try.Pos(), "no store to counter found")
		}
		for _, st := range stores {
			rels := Rels(st.Block())
			op, _ := FindRel(rels, isCounter, isMax)
			r.Check(op == "<", "R2", "TryToIncrement/increment-guard", posOf(st),
				"store to counter must execute only when counter < ceil(max); found relation %q among %s", op, relsString(rels))
			b, ok := st.Val.(*ssa.BinOp)
			okInc := ok && b.Op == token.ADD && isCounter(b.X) && isIntConst(b.Y, 1)
			r.Check(okInc, "R2", "TryToIncrement/increment-by-one", posOf(st), "stored value is %s (want counter + 1)", Path(st.Val))
		}
		// R2 verdict
		blockC, proceedC := w.constOf(pkgLimit, "Block"), w.constOf(pkgLimit, "Proceed")
		nB, nP := 0, 0
		for _, alt := range ReturnAlts(try, 0) {
			ls := litField(alt.Val, "LimitSate")
			if ls == nil {
				if alt.Block.Comment == "recover" {
					continue
				}
				r.Undec("R2", "TryToIncrement/verdict", posOf(alt.Ret), "return value is not a CurrentLimitState literal: %s", Path(alt.Val))
				continue
			}
			rels := relsOfConds(alt.Conds)
			op, _ := FindRel(rels, isCounter, isMax)
			switch {
			case isConstVal(ls, blockC):
				nB++
				r.Check(op == ">=", "R2", "TryToIncrement/return-Block", posOf(alt.Ret), "Block returned under %q (want counter >= max) %s", op, relsString(rels))
			case isConstVal(ls, proceedC):
				nP++
				inc := false
				for _, st := range stores {
					if domInstr(st, alt.Ret) {
						inc = true
					}
				}
				r.Check(op == "<" && inc, "R2", "TryToIncrement/return-Proceed", posOf(alt.Ret), "Proceed returned under %q after increment=%v (want counter < max and the increment dominating)", op, inc)
			default:
				r.Fail("R2", "TryToIncrement/verdict", posOf(alt.Ret), "LimitSate is neither Block nor Proceed: %s", Path(ls))
			}
		}
		if nB == 0 || nP == 0 {
			r.Undec("R2", "TryToIncrement/verdict-count", try.Pos(), "expected both a Block and a Proceed return, found %d/%d", nB, nP)
		}
		// R3 max provenance
		for _, rel := range Rels(firstBlockOf(stores, try)) {
			if isCounter(rel.L) && isMax(rel.R) || isCounter(rel.R) && isMax(rel.L) {
				m := rel.R
				if isCounter(rel.R) {
					m = rel.L
				}
				p := Path(m)
				ok := (strings.Contains(p, "AllowedRequestCount + param:state.spillover") || strings.Contains(p, "param:state.spillover + ")) &&
					strings.Contains(p, "QuotaAllocationRatio") && strings.HasPrefix(p, "math.Ceil((") && strings.Contains(p, " * ")
				r.Check(ok, "R3", "TryToIncrement/max-provenance", posOf(rel.Src.If), "max = %s (want ceil((AllowedRequestCount + spillover) * QuotaAllocationRatio))", p)
			}
		}
		// window must be refreshed before the comparison
		ens := CallsIn(try, false, "singleRateLimitState).ensureWindowIsUpdated")
		okEns := len(ens) == 1 && len(stores) > 0 && domInstr(ens[0], stores[0])
		for _, rel := range Rels(firstBlockOf(stores, try)) {
			if rel.Src.If != nil && len(ens) == 1 && !domInstr(ens[0], rel.Src.If) && (isCounter(rel.L) || isCounter(rel.R)) {
				okEns = false
			}
		}
		r.Check(okEns, "R4", "TryToIncrement/ensureWindow-before-compare", try.Pos(), "ensureWindowIsUpdated is called once, before the bound comparison and the increment")
		// the window is aligned with the configuration of THIS call (a reload changes window size and allowance)
		wd := fieldStores(try, "windowData")
		okWd := len(wd) == 1 && len(ens) == 1 && Path(wd[0].Val) == "param:windowData" && domInstr(wd[0], ens[0]) && len(CondsOf(wd[0].Block())) == 0
		r.Check(okWd, "R4", "TryToIncrement/window-data-refreshed-before-alignment", try.Pos(), "state.windowData = windowData is stored unconditionally before ensureWindowIsUpdated")
		// spill-over is an opt-in allowance: it stays 0 unless SpilloverEnabled
		if ew := w.Fn(pkgLimit, "singleRateLimitState.ensureWindowIsUpdated"); ew != nil {
			sp := fieldStores(ew, "spillover")
			okSp := len(sp) >= 1
			var why []string
			for _, st := range sp {
				if k, isK := peel(st.Val).(*ssa.Const); isK && k.Value != nil && k.Value.ExactString() == "0" {
					continue
				}
				if !condsHave(expandConds(CondsOf(st.Block())), true, func(v ssa.Value) bool { return Path(v) == "param:state.windowData.SpilloverEnabled" }) {
					okSp = false
					why = append(why, "non-zero store at "+w.Pos(st.Pos())+" not conditioned on SpilloverEnabled")
				}
			}
			for _, f := range w.lunarFns {
				if f.Origin() != nil || f == ew || fnPkgPath(f) != pkgLimit {
					continue
				}
				for _, st := range fieldStores(f, "spillover") {
					if _, sn := namedOf(st.Addr.(*ssa.FieldAddr).X.Type()); sn == "singleRateLimitState" && !isFreshBase(st.Addr.(*ssa.FieldAddr).X) {
						okSp = false
						why = append(why, "spillover written in "+shortFn(fnID(outermost(f))))
					}
				}
			}
			r.Check(okSp, "R3", "ensureWindowIsUpdated/spillover-only-when-enabled", ew.Pos(), "the spill-over allowance changes to a non-zero value only under windowData.SpilloverEnabled and nowhere else %v", why)
		}
	}

	// R2 writers of counter
	for _, a := range w.fieldAccesses(pkgLimit, "singleRateLimitState", []string{"counter"}) {
		if !a.Write || isFreshBase(a.Base) {
			continue
		}
		id := fnID(outermost(a.Fn))
		ok := idMatches(id, "singleRateLimitState).TryToIncrement") || idMatches(id, "singleRateLimitState).ensureWindowIsUpdated")
		r.Check(ok, "R2", "writers(counter)/"+shortFn(id), posOf(a.In), "writer of counter: %s (allowed: TryToIncrement, ensureWindowIsUpdated)", id)
	}

	// R4 window roll
	ens := w.Fn(pkgLimit, "singleRateLimitState.ensureWindowIsUpdated")
	if ens == nil {
		r.Undec("R4", "ensureWindowIsUpdated", token.NoPos, "function not found")
	} else {
		isNow := func(v ssa.Value) bool { return isCallTo0(v, "clock.Clock).Now", "time.Now") }
		isEnd := pathRe(`^param:state\.windowEndTime$`)
		cs := fieldStores(ens, "counter")
		es := fieldStores(ens, "windowEndTime")
		if len(cs) == 0 || len(es) == 0 {
			r.Undec("R4", "ensureWindowIsUpdated/reset", ens.Pos(), "reset stores not found (counter:%d windowEndTime:%d)", len(cs), len(es))
		}
		for _, st := range cs {
			rels := Rels(st.Block())
			op, _ := FindRel(rels, isNow, isEnd)
			r.Check(op == ">=", "R4", "ensureWindowIsUpdated/reset-guard", posOf(st),
				"counter reset executes under now %q windowEndTime (want >=: windowEndTime is the exclusive end of the grid window, a request exactly on the boundary belongs to the new window); relations %s", op, relsString(rels))
			r.Check(isIntConst(st.Val, 0), "R4", "ensureWindowIsUpdated/reset-to-zero", posOf(st), "counter reset value %s (want 0)", Path(st.Val))
		}
		for _, st := range es {
			rels := Rels(st.Block())
			op, _ := FindRel(rels, isNow, isEnd)
			r.Check(op == ">=", "R4", "ensureWindowIsUpdated/end-guard", posOf(st), "windowEndTime updated under now %q windowEndTime (want >=)", op)
			p := Path(st.Val)
			// epoch + (elapsed / W) * W + W with elapsed = now - epoch
			// floor by integer division, or by (time.Duration).Truncate, which rounds toward zero the same way
			floored := strings.Contains(p, " / param:state.windowData.WindowSize) * param:state.windowData.WindowSize)") ||
				(strings.Contains(p, "(time.Duration).Truncate((time.Time).Sub(") && strings.Contains(p, "*global:epochTime), param:state.windowData.WindowSize)), param:state.windowData.WindowSize)"))
			ok := strings.Contains(p, "time.Time).Add(") && strings.Contains(p, "time.Time).Sub(") && floored &&
				strings.HasSuffix(p, ", param:state.windowData.WindowSize)") && strings.Contains(p, "global:epochTime")
			r.Check(ok, "R4", "ensureWindowIsUpdated/grid-end", posOf(st), "new window end = %s (want epoch + floor((now-epoch)/W)*W + W)", p)
			// same critical edge as the counter reset
			same := false
			for _, c := range cs {
				if c.Block() == st.Block() {
					same = true
				}
			}
			r.Check(same, "R4", "ensureWindowIsUpdated/reset-together", posOf(st), "counter reset and window-end update are in the same block")
		}
	}

	// R5 isolation
	if gl := w.Fn(pkgLimit, "RateLimitState.getLimiterState"); gl == nil {
		r.Undec("R5", "getLimiterState", token.NoPos, "function not found")
	} else {
		isKey := pathRe(`^param:requestArgs$`)
		n := 0
		Instrs(gl, func(in ssa.Instruction) {
			switch x := in.(type) {
			case *ssa.Lookup:
				n++
				r.Check(isKey(x.Index), "R5", "getLimiterState/lookup-key", posOf(x), "state map indexed by %s (want the caller's requestArgs)", Path(x.Index))
			case *ssa.MapUpdate:
				n++
				r.Check(isKey(x.Key), "R5", "getLimiterState/store-key", posOf(x), "state map updated at %s (want requestArgs)", Path(x.Key))
				r.Check(isCallTo0(x.Value, "newSingleRateLimitState"), "R5", "getLimiterState/fresh-state", posOf(x), "stored state is %s (want a fresh newSingleRateLimitState)", Path(x.Value))
				rels := Rels(x.Block())
				found := false
				for _, rel := range rels {
					if b, ok := constBool(rel.R); ok && strings.Contains(Path(rel.L), "groupsStateByLimiter[param:requestArgs]") && ((rel.Op == "==" && !b) || (rel.Op == "!=" && b)) {
						found = true
					}
				}
				r.Check(found, "R5", "getLimiterState/insert-only-when-absent", posOf(x), "insertion guarded by !found: %s", relsString(rels))
			}
		})
		for _, alt := range ReturnAlts(gl, 0) {
			if alt.Block.Comment == "recover" {
				continue
			}
			n++
			// the state kept under the caller's key: read from the map, the value a comma-ok lookup
			// found there, or the very value this call has just stored under that key
			keyed := strings.HasSuffix(Path(alt.Val), "groupsStateByLimiter[param:requestArgs]")
			if ex, isEx := unhelp(alt.Val).(*ssa.Extract); isEx && ex.Index == 0 && !keyed {
				if lk, isLk := ex.Tuple.(*ssa.Lookup); isLk && lk.CommaOk && strings.HasSuffix(Path(lk.X), "groupsStateByLimiter") && isKey(lk.Index) {
					for _, c := range alt.Conds {
						if ok, isOk := c.V.(*ssa.Extract); isOk && ok.Tuple == ex.Tuple && ok.Index == 1 && c.Pol {
							keyed = true
						}
					}
				}
			}
			if !keyed {
				Instrs(gl, func(in ssa.Instruction) {
					if mu, isMu := in.(*ssa.MapUpdate); isMu && strings.HasSuffix(Path(mu.Map), "groupsStateByLimiter") && isKey(mu.Key) && sameVal(mu.Value, alt.Val) && domInstr(mu, alt.Ret) {
						keyed = true
					}
				})
			}
			r.Check(keyed, "R5", "getLimiterState/returns-keyed-state", posOf(alt.Ret), "returns %s", Path(alt.Val))
		}
		if n < 3 {
			r.Undec("R5", "getLimiterState/count", gl.Pos(), "only %d map operations found", n)
		}
	}
	if gl := w.Fn(pkgLimit, "RateLimitState.getLimiterState"); gl != nil {
		checkInsertIfAbsent(r, la, "R5", "getLimiterState/state-map", gl, "state.groupsStateByLimiter", "param:state.mutex")
	}
	if ti := w.Fn(pkgLimit, "RateLimitState.TryToIncrement"); ti != nil {
		cs := CallsIn(ti, false, "singleRateLimitState).TryToIncrement")
		ok := len(cs) == 1
		if ok {
			a := cs[0].Common().Args
			ok = isCallTo0(a[0], "RateLimitState).getLimiterState") && Path(a[0].(*ssa.Call).Call.Args[1]) == "param:requestArgs" && Path(a[1]) == "param:windowData"
		}
		r.Check(ok, "R5", "RateLimitState.TryToIncrement/delegation", ti.Pos(), "increments getLimiterState(requestArgs) with the caller's windowData")
	} else {
		r.Undec("R5", "RateLimitState.TryToIncrement", token.NoPos, "function not found")
	}

	on := w.Fn(pkgRemedies, "StrategyBasedThrottlingPlugin.OnRequest")
	if on == nil {
		r.Undec("R5", "OnRequest", token.NoPos, "function not found")
		return
	}
	calls := CallsIn(on, false, "IncrementableRateLimitState).TryToIncrement")
	if len(calls) != 1 {
		r.Undec("R5", "OnRequest/TryToIncrement", on.Pos(), "expected one TryToIncrement call, found %d", len(calls))
		return
	}
	call := calls[0]
	args := call.Common().Args
	ra, wd := args[0], args[1]
	lim, grp, gid := litField(ra, "LimiterID"), litField(ra, "Grouping"), litField(ra, "GroupID")
	r.Check(lim != nil && strings.HasSuffix(Path(lim), "scopedRemedy.Remedy.Name"), "R5", "OnRequest/LimiterID", posOf(call), "LimiterID = %s (want scopedRemedy.Remedy.Name)", Path(lim))
	isBG := func(v ssa.Value) bool { return isCallTo0(v, "remedies.buildGroupID") }
	r.Check(gid != nil && strings.HasSuffix(Path(gid), "#0") && Derives(gid, isBG), "R5", "OnRequest/GroupID", posOf(call), "GroupID = %s (want buildGroupID(...)#0)", Path(gid))
	r.Check(grp != nil && strings.HasSuffix(Path(grp), "#1") && Derives(grp, isBG), "R5", "OnRequest/Grouping", posOf(call), "Grouping = %s (want buildGroupID(...)#1)", Path(grp))
	if bg := w.Fn(pkgRemedies, "buildGroupID"); bg != nil {
		okHdr := false
		for _, alt := range ReturnAlts(bg, 0) {
			if _, isC := peel(alt.Val).(*ssa.Const); isC {
				continue
			}
			okHdr = Derives(alt.Val, func(x ssa.Value) bool {
				l, ok := x.(*ssa.Lookup)
				return ok && strings.Contains(Path(l.X), "onRequest.Headers") && strings.Contains(Path(l.Index), "GroupBy.HeaderName")
			})
			r.Check(okHdr, "R5", "buildGroupID/header-value", posOf(alt.Ret), "group id %s derives from the configured group header's value", Path(alt.Val))
			// groups are told apart by the exact (obfuscated) value: only the header NAME may be case-folded
			folded := false
			Instrs(bg, func(in ssa.Instruction) {
				c, ok := in.(*ssa.Call)
				if !ok || !isCallTo(c, "strings.ToLower", "strings.ToUpper", "strings.EqualFold", "strings.Title") {
					return
				}
				for _, a := range c.Call.Args {
					if Derives(a, func(x ssa.Value) bool {
						l, isL := x.(*ssa.Lookup)
						return isL && strings.Contains(Path(l.X), "onRequest.Headers")
					}) {
						folded = true
					}
				}
			})
			r.Check(!folded, "R5", "buildGroupID/value-not-case-folded", posOf(alt.Ret), "the group header's value reaches the group id without case folding (two values differing in case are two groups)")
		}
		if !okHdr {
			r.Undec("R5", "buildGroupID/header-value-count", bg.Pos(), "no non-constant group id return found")
		}
	} else {
		r.Undec("R5", "buildGroupID", token.NoPos, "function not found")
	}
	// window data provenance
	for _, f := range []struct{ field, src string }{
		{"AllowedRequestCount", "AllowedRequestCount"}, {"WindowSize", "WindowSizeInSeconds"}, {"QuotaAllocationRatio", ""},
	} {
		v := litField(wd, f.field)
		ok := v != nil
		if ok && f.src != "" {
			ok = strings.Contains(Path(v), "StrategyBasedThrottling."+f.src)
		}
		if ok && f.field == "WindowSize" {
			ok = strings.HasSuffix(Path(v), "* 1000000000)")
		}
		if ok && f.field == "AllowedRequestCount" {
			ok = strings.HasSuffix(Path(v), ".AllowedRequestCount")
		}
		r.Check(ok, "R3", "OnRequest/windowData."+f.field, posOf(call), "%s = %s", f.field, Path(v))
		if f.field == "QuotaAllocationRatio" && v != nil {
			// the share is the group's own: 1 without group allocation, the group's ratio when
			// it is configured, the default percentage only when it is not
			okShare := true
			var why []string
			nGroup := 0
			for _, alt := range expandAlt(v, nil, call.Block(), nil, 6) {
				alt.Conds = expandConds(alt.Conds)
				rels := relsOfConds(alt.Conds)
				switch x := peel(alt.Val).(type) {
				case *ssa.Const:
					opNil, _ := FindRel(rels, func(y ssa.Value) bool { return strings.HasSuffix(Path(y), ".GroupQuotaAllocation") }, isNilConst)
					if x.Value == nil || x.Value.ExactString() != "1" || opNil != "==" {
						okShare = false
						why = append(why, "constant "+Path(x)+" under GroupQuotaAllocation "+opNil+" nil")
					}
				case *ssa.Extract:
					found := condsHave(alt.Conds, true, func(y ssa.Value) bool { e, ok := y.(*ssa.Extract); return ok && e.Index == 1 && e.Tuple == x.Tuple })
					if !found && x.Index == 0 && isCallTo0(x.Tuple, "remedies.getQuotaAllocationRatio") {
						// fall-through of the default-behaviour switch: infeasible when every constant of
						// the enumeration has its own case (all of them appear negated on this edge)
						nNeg := 0
						for _, rel := range rels {
							if rel.Op == "!=" && (isCallTo0(rel.L, "GroupQuotaAllocation).DefaultBehavior") || isCallTo0(rel.R, "GroupQuotaAllocation).DefaultBehavior")) {
								nNeg++
							}
						}
						if nEnum := w.enumSize("lunar/shared-model/config", "DefaultQuotaGroupBehavior"); nEnum > 0 && nNeg == nEnum {
							continue
						}
					}
					if x.Index != 0 || !isCallTo0(x.Tuple, "remedies.getQuotaAllocationRatio") || !found {
						okShare = false
						why = append(why, "group ratio used with found="+fmt.Sprint(found))
					}
					nGroup++
				case *ssa.BinOp:
					notFound := condsHave(alt.Conds, false, func(y ssa.Value) bool {
						e, ok := y.(*ssa.Extract)
						return ok && e.Index == 1 && isCallTo0(e.Tuple, "remedies.getQuotaAllocationRatio")
					})
					if x.Op != token.QUO || !strings.HasSuffix(Path(x.X), "GroupQuotaAllocation.DefaultAllocationPercentage") || Path(x.Y) != "100" || !notFound {
						okShare = false
						why = append(why, "default share "+trunc(Path(x), 60)+" with notFound="+fmt.Sprint(notFound))
					}
				default:
					okShare = false
					why = append(why, "other value "+trunc(Path(alt.Val), 60))
				}
			}
			r.Check(okShare && nGroup == 1, "R7", "OnRequest/share-of-the-request-group", posOf(call), "QuotaAllocationRatio is 1 without group allocation, the group's own ratio when found, the default percentage/100 only when not found %v", why)
		}
	}

	// R6 verdict mapping
	blockC := w.constOf(pkgLimit, "Block")
	isBlockCmp := func(rel Rel) (bool, bool) { // (is the LimitSate==Block test, holds)
		if strings.HasSuffix(Path(rel.L), ".LimitSate") && isConstVal(rel.R, blockC) {
			return true, rel.Op == "=="
		}
		if strings.HasSuffix(Path(rel.R), ".LimitSate") && isConstVal(rel.L, blockC) {
			return true, rel.Op == "=="
		}
		return false, false
	}
	nNo, nRej := 0, 0
	for _, alt := range ReturnAlts(on, 0) {
		if !domInstr(call, alt.Ret) {
			continue
		}
		if isNilConst(peel(alt.Val)) {
			continue // error return
		}
		var seen, holds bool
		for _, rel := range relsOfConds(alt.Conds) {
			if is, h := isBlockCmp(rel); is {
				seen, holds = true, h
			}
		}
		rej := Derives(alt.Val, func(x ssa.Value) bool { return isCallTo0(x, "remedies.plainTextTooManyRequestsAction") })
		_, isAlloc := peel(alt.Val).(*ssa.Alloc)
		noop := isAlloc && structOf(peel(alt.Val).Type()) == "NoOpAction"
		switch {
		case rej:
			nRej++
			r.Check(seen && holds, "R6", "OnRequest/reject-only-on-Block", posOf(alt.Ret), "rejection returned with LimitSate==Block known=%v holds=%v", seen, holds)
			// status provenance
			Instrs(on, func(in ssa.Instruction) {
				if c, ok := in.(*ssa.Call); ok && isCallTo(c, "remedies.plainTextTooManyRequestsAction") && domInstr(call, c) {
					p := Path(c.Call.Args[0])
					ok := strings.HasPrefix(p, "phi[") && strings.Contains(p, "429") && strings.Contains(p, "ResponseStatusCode")
					r.Check(ok, "R6", "OnRequest/reject-status", posOf(c), "rejection status = %s (want configured-or-429)", p)
				}
			})
		case noop:
			nNo++
			r.Check(seen && !holds, "R6", "OnRequest/noop-only-on-Proceed", posOf(alt.Ret), "NoOp returned with LimitSate==Block known=%v holds=%v (want known and false)", seen, holds)
		default:
			r.Fail("R6", "OnRequest/unknown-result", posOf(alt.Ret), "unexpected action after the limit decision: %s", Path(alt.Val))
		}
	}
	if nNo == 0 || nRej == 0 {
		r.Undec("R6", "OnRequest/verdict-count", on.Pos(), "expected a rejection and a NoOp return after TryToIncrement, found %d/%d", nRej, nNo)
	}
	// R7 group allocation lookup: found <=> the configured group header value matched
	if ga := w.Fn(pkgRemedies, "getQuotaAllocationRatio"); ga == nil {
		r.Undec("R7", "getQuotaAllocationRatio", token.NoPos, "function not found")
	} else {
		// a parameter stands for what every caller passes in its place
		passedAs := func(v ssa.Value, suffix string) bool {
			prm, isP := v.(*ssa.Parameter)
			if !isP || prm.Parent() != ga {
				return false
			}
			idx := -1
			for i, q := range ga.Params {
				if q == prm {
					idx = i
				}
			}
			sites := w.CallSites("remedies.getQuotaAllocationRatio")
			for _, cs := range sites {
				if a := cs.In.Common().Args; idx < 0 || idx >= len(a) || !strings.HasSuffix(Path(a[idx]), suffix) {
					return false
				}
			}
			return len(sites) > 0
		}
		// the request's header named by the group-by configuration
		headerSide := func(v ssa.Value) bool {
			if p := Path(v); strings.Contains(p, "Headers[") && strings.Contains(p, "GroupBy.HeaderName") {
				return true
			}
			lk, isL := peel(v).(*ssa.Lookup)
			if !isL || !passedAs(lk.X, ".Headers") {
				return false
			}
			ip := Path(lk.Index)
			if !strings.HasSuffix(ip, ".GroupBy.HeaderName") {
				return false
			}
			if strings.Contains(ip, ".GroupQuotaAllocation.") {
				return true
			}
			for _, q := range ga.Params {
				if strings.HasPrefix(ip, "param:"+q.Name()+".") && passedAs(q, ".GroupQuotaAllocation") {
					return true
				}
			}
			return false
		}
		isEq := func(rels []Rel) bool {
			for _, rel := range rels {
				l, rr := Path(rel.L), Path(rel.R)
				if rel.Op == "==" && (strings.Contains(l, "GroupHeaderValue") && headerSide(rel.R) ||
					strings.Contains(rr, "GroupHeaderValue") && headerSide(rel.L)) {
					return true
				}
			}
			return false
		}
		a0 := ReturnAlts(ga, 0)
		for i, alt := range ReturnAlts(ga, 1) {
			b, isC := constBool(alt.Val)
			switch {
			case !isC:
				r.Fail("R7", "getQuotaAllocationRatio/found-flag", posOf(alt.Ret), "found flag is %s, not decided by the header-value equality alone", Path(alt.Val))
			case b:
				ok := isEq(relsOfConds(alt.Conds)) && i < len(a0) && strings.HasSuffix(Path(a0[i].Val), "AllocationPercentage / 100)")
				// ... and by nothing else: a listed group is found whatever its percentage (0 % is a share of 0)
				for _, cd := range alt.Conds {
					rel, isRel := NormCond(cd)
					if isRel && isEq([]Rel{rel}) {
						continue
					}
					if isRel && rel.Op == "<" && strings.Contains(Path(rel.R), "builtin.len(") {
						continue // loop bound
					}
					if p := Path(cd.V); strings.HasPrefix(p, "next(range(") {
						continue
					}
					ok = false
				}
				r.Check(ok, "R7", "getQuotaAllocationRatio/found", posOf(alt.Ret), "found=true under %s with ratio %s (want GroupHeaderValue == Headers[GroupBy.HeaderName], AllocationPercentage/100)", relsString(relsOfConds(alt.Conds)), Path(a0[i].Val))
			default:
				r.Check(!isEq(relsOfConds(alt.Conds)), "R7", "getQuotaAllocationRatio/not-found", posOf(alt.Ret), "found=false only after the loop without a match")
			}
		}
	}
	r.Min("R7", 2)
	r.Min("R1", 6)
	r.Min("R2", 5)
	r.Min("R4", 5)
	r.Min("R5", 8)
	r.Min("R6", 3)
}

func isCallTo0(v ssa.Value, pats ...string) bool {
	c, ok := peel(v).(*ssa.Call)
	return ok && isCallTo(c, pats...)
}

func firstBlockOf(stores []*ssa.Store, fn *ssa.Function) *ssa.BasicBlock {
	if len(stores) > 0 {
		return stores[0].Block()
	}
	return fn.Blocks[0]
}

// enumSize counts the constants declared with the named type pkg.name.
func (w *World) enumSize(pkg, name string) int {
	p := w.ByPath[pkg]
	if p == nil {
		return 0
	}
	n := 0
	sc := p.Types.Scope()
	for _, id := range sc.Names() {
		if c, ok := sc.Lookup(id).(*types.Const); ok {
			if nt, ok := c.Type().(*types.Named); ok && nt.Obj().Name() == name {
				n++
			}
		}
	}
	return n
}
