package main

import (
	"fmt"
	"go/constant"
	"go/token"
	"go/types"
	"strings"

	"golang.org/x/tools/go/ssa"
)

const pkgFlow = "lunar/engine/streams/flow"

func init() {
	register(&Property{
		ID:   "C04",
		Mods: []string{modEngine},
		Explanation: "Decides structural necessary conditions of 'execution follows the configured graph', not equivalence with a reference interpreter on all graphs: " +
			"(R1) the walk executes node.GetProcessor().Execute and recurses into edge.GetTargetNode() exactly for edges that have a node and whose condition equals the processor's output, over ALL edges of the node (no early exit but an error); " +
			"(R2) when a processor answers a request itself the walk returns the response-direction node with the same processor key and follows no edge; (R3) request actions are appended on the request-actions side and response actions on the response-actions side (selected by GetActionsType), a short-circuit action is appended and ends the node; " +
			"(R4) request orchestration: system-start flows, then user flows (stopping at the first short circuit), then system-end flows; a recorded short circuit switches the transaction to response, re-selects flows and hands the node to the response run; " +
			"(R5) response orchestration walks each list from the last element to the first, resumes the short-circuited user flow (matched by flow name) from the recorded node, and finishes the response; " +
			"(R6) a flow starts at its root's node or, after a short circuit, at the first edge target of the recorded node (guarded by len(edges) != 0), and does nothing for an undefined direction or missing root; " +
			"(R7) the builder creates each edge with the source processor's condition and the connection's target, and edges are duplicates only if condition and target agree. NOT decided: agreement with a reference interpreter on all graphs.",
		RuleText: "obligation = (rule, anchored construct) on SSA of the current tree: call-site conditions and arguments, loop-exit inventory, store/append routing, reverse-iteration phi shape, dominance order of the orchestration phases",
		Run:      runC04,
	})
}

func runC04(w *World, r *Report) {
	hrFlowGraphNodeEqual(w, r, "R7")
	hrSystemFlows(w, r, "R8")
	// what the interpreter is given to execute: selection and merge of the matched flows (C03.R9)
	r.Borrow(w, func(w *World, r *Report) {
		c03ReadOnlySelection(w, r)
		c03ExtendKeepsKinds(w, r)
		hrFilterResultGetters(w, r, "R9")
		c03Tables(w, r)
	}, map[string]string{"R9": "R6", "R2": "R6", "R4": "R6"})
	hrFoundIsMonotone(w, r, "R6")
	hrSetTypeStores(w, r, "R6")
	hrEveryMatchingEdgeFollowed(w, r, "R1")
	hrScriptRestoresResponse(w, r, "R6")
	hrIsEmptyLooksAtAllThree(w, r, "R6")
	hrGenerateResponseHandsOver(w, r, "R6")
	hrConcurrentLocations(w, r, "R8")
	hrSystemFlowsLookedUpAlways(w, r, "R6")
	hrCfgEarlyResponseNotFedBack(w, r, "R6")
	hrAddConnections(w, r, "R8")
	hrMeasureReturnsError(w, r, "R1")
	ef := w.Fn(pkgStream, "Stream.ExecuteFlow")
	if ef == nil {
		r.Undec("R1", "stream.ExecuteFlow", token.NoPos, "function not found")
	} else {
		recs := CallsIn(ef, false, "stream.Stream).ExecuteFlow")
		if len(recs) != 1 {
			r.Undec("R1", "ExecuteFlow/recursion", ef.Pos(), "expected one recursive call, found %d", len(recs))
		} else {
			rc := recs[0]
			a := rc.Common().Args
			var edge ssa.Value
			if c, ok := peel(a[3]).(*ssa.Call); ok && isCallTo(c, "ConnectionEdgeI).GetTargetNode") {
				edge = c.Call.Value
			}
			okArgs := Path(a[1]) == "param:flow" && Path(a[2]) == "param:apiStream" && edge != nil && Path(a[4]) == "param:actions"
			r.Check(okArgs, "R1", "ExecuteFlow/recurse-into-edge-target", posOf(rc), "the walk recurses with the same flow/stream/actions into edge.GetTargetNode() (%s)", trunc(Path(a[3]), 80))
			cs := CondsOf(rc.Block())
			avail, cond := false, false
			var header *ssa.BasicBlock
			inLoop := 0
			for _, c := range cs {
				p := Path(c.V)
				if b, isB := c.V.(*ssa.BinOp); isB && b.Op == token.LSS && isCallTo0(b.Y, "builtin.len") {
					header = c.If.Block()
					continue
				}
				if header == nil {
					// conditions are listed innermost first; everything before the loop header condition is inside the loop
				}
				_ = p
			}
			for _, c := range cs {
				if header == nil || !header.Dominates(c.If.Block()) || c.If.Block() == header {
					continue
				}
				inLoop++
				if cc, ok := peel(c.V).(*ssa.Call); ok && isCallTo(cc, "ConnectionEdgeI).IsNodeAvailable") && c.Pol && edge != nil && cc.Call.Value == edge {
					avail = true
				}
				if rel, ok := NormCond(c); ok && rel.Op == "==" {
					l, rr := rel.L, rel.R
					isCond := func(v ssa.Value) bool {
						cc, ok := peel(v).(*ssa.Call)
						return ok && isCallTo(cc, "ConnectionEdgeI).GetCondition") && edge != nil && cc.Call.Value == edge
					}
					isName := func(v ssa.Value) bool { return typedField(v) == "ProcessorIO.Name" }
					if isCond(l) && isName(rr) || isCond(rr) && isName(l) {
						cond = true
					}
				}
			}
			r.Check(avail && cond && inLoop == 2, "R1", "ExecuteFlow/follow-iff-condition-equals-output", posOf(rc), "an edge is followed exactly when it has a target node (%v) and edge.GetCondition() == procIO.Name (%v); conditions inside the edge loop: %d (want 2)", avail, cond, inLoop)
			if header != nil {
				ex := loopExits(header, true)
				r.Check(len(ex) == 0, "R1", "ExecuteFlow/all-edges-visited", posOf(rc), "every edge of the node is examined: no exit from the edge loop other than its end or an error return (found %v)", ex)
				// ranged collection is node.GetEdges()
				okR := false
				Derives(edge, func(x ssa.Value) bool {
					if c, ok := x.(*ssa.Call); ok && isCallTo(c, "FlowGraphNodeI).GetEdges") {
						okR = true
					}
					return false
				})
				r.Check(okR, "R1", "ExecuteFlow/edges-of-current-node", posOf(rc), "the edges examined are node.GetEdges()")
			} else {
				r.Undec("R1", "ExecuteFlow/edge-loop", posOf(rc), "edge loop header not found")
			}
			r.Check(errReturned(ef, rc), "R1", "ExecuteFlow/recursion-error-returned", posOf(rc), "an error of the recursive walk is returned")
		}
		// executed processor
		okEx := false
		var execCalls []ssa.CallInstruction
		for _, af := range Anons(ef)[1:] {
			for _, c := range CallsIn(af, false, "ProcessorI).Execute") {
				execCalls = append(execCalls, c)
				okEx = strings.Contains(Path(c.Common().Value), "GetProcessor(") && strings.Contains(Path(c.Common().Value), "free:node") && strings.Contains(Path(c.Common().Args[0]), "GetName(") && strings.Contains(Path(c.Common().Args[1]), "free:apiStream")
			}
		}
		r.Check(okEx, "R1", "ExecuteFlow/executes-node-processor", ef.Pos(), "the step executes node.GetProcessor().Execute(flow.GetName(), apiStream)")
		// R2 hand-over
		gn := CallsIn(ef, false, "FlowDirectionI).GetNode")
		okH := len(gn) == 1
		if okH {
			cs := CondsOf(gn[0].Block())
			a := condsHave(cs, true, func(v ssa.Value) bool {
				c, isC := peel(v).(*ssa.Call)
				return isC && isCallTo(c, "StreamType).IsResponseType") && len(c.Call.Args) > 0 && typedField(c.Call.Args[0]) == "ProcessorIO.Type"
			})
			b := condsHave(cs, true, func(v ssa.Value) bool {
				return isCallTo0(v, "StreamType).IsRequestType") && strings.Contains(Path(v), "GetType(param:apiStream)")
			})
			key := strings.Contains(Path(gn[0].Common().Args[0]), "GetProcessorKey(") && strings.Contains(Path(gn[0].Common().Value), "GetResponseDirection(param:flow)")
			// no edge is followed afterwards
			follows := false
			for _, rc := range recs {
				if canReach(gn[0].Block(), rc.Block()) {
					follows = true
				}
			}
			okH = a && b && key && !follows
		}
		r.Check(okH, "R2", "ExecuteFlow/short-circuit-hand-over", ef.Pos(), "when the processor output is a response while the transaction is a request, the walk returns flow.GetResponseDirection().GetNode(node.GetProcessorKey()) and follows no edge")
		// R3 routing
		nApp := 0
		Instrs(ef, func(in ssa.Instruction) {
			st, ok := in.(*ssa.Store)
			if !ok {
				return
			}
			fa, ok := st.Addr.(*ssa.FieldAddr)
			if !ok || fieldName(fa.X.Type(), fa.Field) != "Actions" {
				return
			}
			side := ""
			if strings.HasSuffix(Path(fa.X), "actions.Request") {
				side = "Request"
			} else if strings.HasSuffix(Path(fa.X), "actions.Response") {
				side = "Response"
			}
			ap, isAp := peel(st.Val).(*ssa.Call)
			if side == "" || !isAp || !isCallTo(ap, "builtin.append") {
				return
			}
			nApp++
			what := ""
			Derives(ap.Call.Args[1], func(x ssa.Value) bool {
				// identified by the type of the struct the field is read from, not by the name of a local
				tf := typedField(x)
				for from, s := range map[string]string{"ShortCircuit.ReqAction": "ShortCircuit.ReqAction", "ShortCircuit.RespAction": "ShortCircuit.RespAction", "ProcessorIO.ReqAction": "procIO.ReqAction", "ProcessorIO.RespAction": "procIO.RespAction"} {
					if tf == from && what == "" {
						what = s
					}
				}
				return false
			})
			cs := CondsOf(st.Block())
			isReqSide := condsHave(cs, true, func(v ssa.Value) bool {
				return isCallTo0(v, "StreamType).IsRequestType") && strings.Contains(Path(v), "GetActionsType(")
			})
			isRespSide := condsHave(cs, true, func(v ssa.Value) bool {
				return isCallTo0(v, "StreamType).IsResponseType") && strings.Contains(Path(v), "GetActionsType(")
			})
			ok2 := false
			switch what {
			case "procIO.ReqAction":
				ok2 = side == "Request" && isReqSide && condsHave(cs, true, func(v ssa.Value) bool { return strings.Contains(Path(v), "IsRequestActionAvailable(") })
			case "ShortCircuit.ReqAction":
				ok2 = side == "Request" && isReqSide && retInBlock(st.Block())
			case "procIO.RespAction":
				ok2 = side == "Response" && isRespSide && condsHave(cs, true, func(v ssa.Value) bool { return strings.Contains(Path(v), "IsResponseActionAvailable(") })
			case "ShortCircuit.RespAction":
				ok2 = side == "Response" && isRespSide && retInBlock(st.Block())
			}
			r.Check(ok2, "R3", "ExecuteFlow/append/"+what, posOf(st), "%s is appended to actions.%s on the matching GetActionsType() side (short-circuit actions end the node)", what, side)
		})
		if nApp != 4 {
			r.Undec("R3", "ExecuteFlow/append-sites", ef.Pos(), "expected the 4 confirmed action append sites, found %d", nApp)
		}
	}

	c04Orchestration(w, r)
	c04Builder(w, r)
	c04KindRouting(w, r)
	c04ForeignRootConsumedOnce(w, r)
	c04BuilderHelpers(w, r)
	r.Min("R8", 10)
	r.Min("R1", 6)
	r.Min("R2", 1)
	r.Min("R3", 4)
	r.Min("R4", 4)
	r.Min("R5", 5)
	r.Min("R6", 3)
	r.Min("R7", 5)
}

func retInBlock(b *ssa.BasicBlock) bool {
	_, ok := b.Instrs[len(b.Instrs)-1].(*ssa.Return)
	return ok
}

func c04Orchestration(w *World, r *Report) {
	eq := w.Fn(pkgStreams, "Stream.executeReq")
	if eq == nil {
		r.Undec("R4", "executeReq", token.NoPos, "function not found")
	} else {
		get := func(n string) ssa.CallInstruction {
			cs := CallsIn(eq, false, "FilterTreeResultI)."+n)
			if len(cs) == 1 {
				return cs[0]
			}
			return nil
		}
		a, b, c := get("GetSystemFlowStart"), get("GetUserFlow"), get("GetSystemFlowEnd")
		ok := a != nil && b != nil && c != nil && domInstr(a, b) && domInstr(b, c)
		r.Check(ok, "R4", "executeReq/phase-order", eq.Pos(), "request phases: system-start flows, then user flows, then system-end flows")
		// each phase executes every flow of its list (user loop may stop at a short circuit)
		efs := CallsIn(eq, false, "Stream).executeFlow")
		r.Check(len(efs) == 3, "R4", "executeReq/three-phase-calls", eq.Pos(), "one executeFlow call per phase (found %d)", len(efs))
		for i, e := range efs {
			var header *ssa.BasicBlock
			for _, cd := range CondsOf(e.Block()) {
				if bo, isB := cd.V.(*ssa.BinOp); isB && bo.Op == token.LSS && isCallTo0(bo.Y, "builtin.len") && header == nil {
					header = cd.If.Block()
				}
			}
			if header == nil {
				r.Undec("R4", "executeReq/phase-loop", posOf(e), "loop of phase call %d not found", i)
				continue
			}
			ex := loopExits(header, true)
			phase := "system"
			if Derives(e.Common().Args[1], func(x ssa.Value) bool { return b != nil && x == b.Value() }) {
				phase = "user"
			}
			if phase == "user" {
				// the only other exit is the break after a non-nil short-circuit node was recorded
				okB := len(ex) <= 1
				st := 0
				Instrs(eq, func(in ssa.Instruction) {
					if s, isS := in.(*ssa.Store); isS {
						if fa, isFA := s.Addr.(*ssa.FieldAddr); isFA && (fieldName(fa.X.Type(), fa.Field) == "node" || fieldName(fa.X.Type(), fa.Field) == "flow") && structOf(fa.X.Type()) == "shortCircuitOperation" {
							st++
						}
					}
				})
				r.Check(okB && st == 2, "R4", "executeReq/user-loop-stops-at-short-circuit", posOf(e), "user flows run in order; the loop is left early only after recording {node, flow} of a short circuit (exits %v)", ex)
			} else {
				r.Check(len(ex) == 0, "R4", "executeReq/system-loop-complete", posOf(e), "every system flow of the phase is executed (exits %v)", ex)
			}
		}
		// short-circuit continuation
		er := CallsIn(eq, false, "Stream).executeRes")
		stt := CallsIn(eq, false, "APIStreamI).SetType")
		gf := CallsIn(eq, false, "FilterTreeI).GetFlow", "FilterTree).GetFlow")
		okS := len(er) == 1 && len(stt) == 1 && len(gf) == 1
		if okS {
			respC := w.constOf("lunar/engine/streams/public-types", "StreamTypeResponse")
			okS = domInstr(stt[0], gf[0]) && domInstr(gf[0], er[0]) && isConstVal(margs(stt[0])[0], respC) &&
				strings.Contains(Path(er[0].Common().Args[1]), "GetFlow(") && !isNilConst(er[0].Common().Args[4])
			op, _ := FindRel(Rels(er[0].Block()), func(v ssa.Value) bool { return v == er[0].Common().Args[4] }, isNilConst)
			okS = okS && op == "!="
		}
		// the user-flow loop ends at the flow that answered: the recorded operation is never
		// set on a path that goes round the loop again (later flows would run their request
		// path after the answer, and overwrite the record)
		carried := []string{}
		for _, h := range loopHeadersOf(eq) {
			for _, in := range h.Instrs {
				ph, isPhi := in.(*ssa.Phi)
				if !isPhi || !strings.HasSuffix(ph.Type().String(), "shortCircuitOperation") {
					continue
				}
				for i, ed := range ph.Edges {
					p := h.Preds[i]
					if h.Dominates(p) && ed != ssa.Value(ph) {
						// (a value that is known to be nil where the loop continues changes nothing)
						e := ed
						if op, _ := FindRel(relsOfConds(CondsOfEdge(p, h)), func(v ssa.Value) bool { return v == e || v == unhelp(e) }, isNilConst); op == "==" || isNilConst(ed) {
							continue
						}
						carried = append(carried, w.Pos(posOf(ph))+": "+trunc(Path(ed), 60))
					}
				}
			}
		}
		r.Check(len(carried) == 0, "R4", "executeReq/user-loop-ends-at-the-answering-flow", eq.Pos(), "the short-circuit record is never changed on a path that continues the loop over the user flows (%v)", carried)
		r.Check(okS, "R4", "executeReq/short-circuit-continues-as-response", eq.Pos(), "a recorded short circuit switches the stream to response, re-selects the flows and runs executeRes with the recorded operation")
	}
	es := w.Fn(pkgStreams, "Stream.executeRes")
	if es == nil {
		r.Undec("R5", "executeRes", token.NoPos, "function not found")
	} else {
		efs := CallsIn(es, false, "Stream).executeFlow")
		nLoops := 0
		seen := map[*ssa.Phi]bool{}
		for _, e := range efs {
			// the flow argument is list[idx] with idx = phi(len(list)-1, idx-1) and loop condition idx >= 0
			var idx *ssa.Phi
			Derives(e.Common().Args[1], func(x ssa.Value) bool {
				if ia, ok := x.(*ssa.IndexAddr); ok {
					if ph, ok := ia.Index.(*ssa.Phi); ok {
						idx = ph
					}
				}
				return false
			})
			if idx == nil {
				r.Fail("R5", "executeRes/reverse-index", posOf(e), "flow executed is not list[index]")
				continue
			}
			if seen[idx] {
				continue
			}
			seen[idx] = true
			nLoops++
			okInit, okStep := false, false
			for i, ed := range idx.Edges {
				back := idx.Block().Dominates(idx.Block().Preds[i])
				if b, ok := ed.(*ssa.BinOp); ok && b.Op == token.SUB && isIntConst(b.Y, 1) {
					if back && b.X == ssa.Value(idx) {
						okStep = true
					}
					if !back && isCallTo0(b.X, "builtin.len") {
						okInit = true
					}
				}
			}
			okCond := false
			if bi := blockIf(idx.Block()); bi != nil {
				if rel, ok := NormCond(Cond{V: bi.Cond, Pol: true}); ok {
					if rel, ok = rel.Facing(func(x ssa.Value) bool { return x == ssa.Value(idx) }); ok && rel.Op == ">=" && isIntConst(rel.R, 0) {
						okCond = true
					}
				}
			}
			ex := loopExits(idx.Block(), true)
			r.Check(okInit && okStep && okCond && len(ex) == 0, "R5", "executeRes/reverse-iteration", posOf(e), "the list is walked from len-1 (%v) down by one (%v) while index >= 0 (%v), every element executed (exits %v)", okInit, okStep, okCond, ex)
		}
		if nLoops != 3 {
			r.Undec("R5", "executeRes/loops", es.Pos(), "expected 3 reverse loops, found %d", nLoops)
		}
		get := func(n string) ssa.CallInstruction {
			cs := CallsIn(es, false, "FilterTreeResultI)."+n)
			if len(cs) == 1 {
				return cs[0]
			}
			return nil
		}
		a, b, c := get("GetSystemFlowStart"), get("GetUserFlow"), get("GetSystemFlowEnd")
		fin := CallsIn(es, false, "ResourceManagementI).OnResponseFinish", "ResourceManagement).OnResponseFinish")
		ok := a != nil && b != nil && c != nil && domInstr(a, b) && domInstr(b, c) && len(fin) == 1 && domInstr(c, fin[0])
		r.Check(ok, "R5", "executeRes/phase-order-and-finish", es.Pos(), "response phases run system-start, user, system-end lists (each reversed) and then OnResponseFinish")
		// hand-over to the short-circuited flow, matched by flow name
		// (the start node may be passed directly in the matching branch, or through a local
		// that is set there and is nil otherwise: every non-nil alternative of the argument
		// is shortCircuit.node under the name test)
		okN := false
		okOthers := true
		for _, e := range efs {
			for _, alt := range expandAlt(e.Common().Args[4], CondsOf(e.Block()), e.Block(), nil, 3) {
				if isNilConst(alt.Val) {
					continue
				}
				if !strings.HasSuffix(Path(alt.Val), "shortCircuit.node") {
					if _, isPhi := alt.Val.(*ssa.Phi); isPhi {
						okOthers = false // a value carried over from another iteration
					}
					continue
				}
				named := false
				for _, rel := range relsOfConds(alt.Conds) {
					l, rr := Path(rel.L), Path(rel.R)
					if rel.Op == "==" && (strings.HasSuffix(l, "GetName(param:shortCircuit.flow)") && strings.Contains(rr, "FlowI).GetName(") || strings.HasSuffix(rr, "GetName(param:shortCircuit.flow)") && strings.Contains(l, "FlowI).GetName(")) {
						named = true
					}
				}
				if named {
					okN = true
				} else {
					okOthers = false
				}
			}
		}
		okN = okN && okOthers
		r.Check(okN, "R5", "executeRes/resume-short-circuited-flow-by-name", es.Pos(), "the recorded node is handed to the user flow whose GetName() equals the short-circuited flow's GetName()")
	}
	xf := w.Fn(pkgStreams, "Stream.executeFlow")
	if xf == nil {
		r.Undec("R6", "executeFlow", token.NoPos, "function not found")
	} else {
		// node = phi(root.GetNode(), first edge target)
		ok := false
		okGuard := false
		for _, af := range Anons(xf)[1:] {
			for _, c := range CallsIn(af, false, "stream.Stream).ExecuteFlow") {
				_ = c
				ok = true
			}
		}
		Instrs(xf, func(in ssa.Instruction) {
			if ia, isIA := in.(*ssa.IndexAddr); isIA && isIntConst(ia.Index, 0) && isCallTo0(ia.X, "FlowGraphNodeI).GetEdges") {
				for _, rel := range Rels(ia.Block()) {
					if rel.Op == "!=" && isCallTo0(rel.L, "builtin.len") && isIntConst(rel.R, 0) && strings.Contains(Path(rel.L), "GetEdges(param:startFromNode)") {
						okGuard = true
					}
				}
			}
		})
		r.Check(okGuard, "R6", "executeFlow/first-edge-guarded", xf.Pos(), "startFromNode.GetEdges()[0] is read only under len(startFromNode.GetEdges()) != 0")
		st := false
		Instrs(xf, func(in ssa.Instruction) {
			if s, isS := in.(*ssa.Store); isS && Derives(s.Val, func(x ssa.Value) bool {
				return isCallTo0(x, "EntryPointI).GetNode") && strings.Contains(Path(x), "GetRoot(")
			}) {
				st = true
			}
		})
		r.Check(ok && st, "R6", "executeFlow/starts-at-root", xf.Pos(), "the walk starts at flowDirection.GetRoot().GetNode() (or the recorded node's first edge target) and is delegated to stream.ExecuteFlow")
		early := 0
		for _, alt := range ReturnAlts(xf, 1) {
			if isNilConst(alt.Val) {
				for _, cd := range alt.Conds {
					p := Path(cd.V)
					if strings.Contains(p, "IsDefined(") && !cd.Pol || strings.Contains(p, "IsInterfaceNil(") && cd.Pol {
						early++
						break
					}
				}
			}
		}
		r.Check(early >= 3, "R6", "executeFlow/nothing-for-missing-flow-direction-root", xf.Pos(), "a nil flow, an undefined direction or a missing root return without executing anything (%d early exits)", early)
	}
}

func c04Builder(w *World, r *Report) {
	for _, name := range []string{"connectProcessors", "connectProcessorToStream", "connectProcessorToFlow"} {
		f := w.Fn(pkgFlow, "flowBuilder."+name)
		if f == nil {
			r.Undec("R7", name, token.NoPos, "function not found")
			continue
		}
		ne := CallsIn(f, false, "flow.NewConnectionEdge")
		ok := len(ne) >= 1
		for _, c := range ne {
			p := Path(c.Common().Args[0])
			if !(strings.Contains(p, "GetCondition(") && strings.Contains(p, "GetProcessor(") && strings.Contains(p, "GetFrom(param:conn)")) {
				ok = false
			}
		}
		ad := CallsIn(f, false, "FlowGraphNode).addEdge")
		okAdd := len(ad) >= 1
		for _, c := range ad {
			if !Derives(c.Common().Args[0], func(x ssa.Value) bool { return strings.Contains(Path(x), "GetFrom(param:conn)") }) {
				okAdd = false
			}
		}
		r.Check(ok && okAdd, "R7", name+"/edge-from-source-condition", f.Pos(), "the edge carries conn.GetFrom().GetProcessor().GetCondition() and is added to the node of conn.GetFrom()")
		if name == "connectProcessors" {
			okT := false
			for _, st := range fieldStores(f, "node") {
				okT = Derives(st.Val, func(x ssa.Value) bool { return strings.Contains(Path(x), "GetTo(param:conn)") })
			}
			r.Check(okT, "R7", name+"/edge-target", f.Pos(), "edge.node is the node of conn.GetTo().GetProcessor()")
		}
	}
	if f := w.Fn(pkgFlow, "flowBuilder.connectStreamToProcessor"); f != nil {
		ne := CallsIn(f, false, "flow.NewEntryPoint")
		ok := len(ne) == 1 && Derives(ne[0].Common().Args[0], func(x ssa.Value) bool { return strings.Contains(Path(x), "GetTo(param:conn)") })
		r.Check(ok, "R7", "connectStreamToProcessor/root-from-target", f.Pos(), "the stream entry point is the node of conn.GetTo().GetProcessor()")
	}
	if eq := w.Fn(pkgFlow, "ConnectionEdge.equal"); eq == nil {
		r.Undec("R7", "ConnectionEdge.equal", token.NoPos, "function not found")
	} else {
		okAll := true
		n := 0
		for _, alt := range ReturnAlts(eq, 0) {
			if b, isC := constBool(alt.Val); isC && b {
				n++
				same := false
				for _, rel := range relsOfConds(alt.Conds) {
					if rel.Op == "==" && (Path(rel.L) == "param:ce.condition" && Path(rel.R) == "param:other.condition" || Path(rel.R) == "param:ce.condition" && Path(rel.L) == "param:other.condition") {
						same = true
					}
				}
				if !same {
					okAll = false
				}
			}
		}
		r.Check(okAll && n >= 1, "R7", "ConnectionEdge.equal/condition-part-of-identity", eq.Pos(), "two edges are duplicates only if their conditions are equal as well (an edge to the same target under another condition must be kept)")
	}
}

// c04KindRouting: a flow of kind K (user / system-start / system-end) is stored
// in, and read back from, the node list of the same kind on every path:
// AddFlow (existing node and new node), getSystemFlow and getFlow agree.
func c04KindRouting(w *World, r *Report) {
	const pkgITypes = "lunar/engine/streams/internal-types"
	want := map[int64]string{}
	for name, field := range map[string]string{"UserFlow": "userFlows", "SystemFlowStart": "systemFlowStart", "SystemFlowEnd": "systemFlowEnd"} {
		c := w.constOf(pkgITypes, name)
		if c == nil {
			r.Undec("R8", "const/"+name, token.NoPos, "flow kind constant not found")
			return
		}
		n, _ := constant.Int64Val(c)
		want[n] = field
	}
	kindOf := func(b *ssa.BasicBlock, subject VP) (int64, bool) {
		for _, c := range CondsOf(b) {
			if !c.Pol {
				continue
			}
			if rel, ok := NormCond(c); ok && rel.Op == "==" {
				for _, s := range [][2]ssa.Value{{rel.L, rel.R}, {rel.R, rel.L}} {
					if k, isK := peel(s[1]).(*ssa.Const); isK && k.Value != nil && subject(s[0]) {
						if n, exact := constant.Int64Val(constant.ToInt(k.Value)); exact {
							return n, true
						}
					}
				}
			}
		}
		return 0, false
	}
	// which FilterNode field does add<X> append to
	fieldOfAdder := func(m *ssa.Function) string {
		name := ""
		n := 0
		Instrs(m, func(in ssa.Instruction) {
			if st, ok := in.(*ssa.Store); ok {
				if fa, ok := st.Addr.(*ssa.FieldAddr); ok {
					if _, sn := namedOf(fa.X.Type()); sn == "FilterNode" {
						n++
						c, isApp := peel(st.Val).(*ssa.Call)
						if isApp && len(c.Call.Args) == 2 && Path(c.Call.Args[0]) == strings.TrimPrefix(Path(fa), "&") && Derives(c.Call.Args[1], func(x ssa.Value) bool { return Path(x) == "param:flow" }) {
							name = fieldName(fa.X.Type(), fa.Field)
						}
					}
				}
			}
		})
		if n != 1 {
			return ""
		}
		return name
	}
	af := w.Fn(pkgFilter, "FilterTree.AddFlow")
	if af == nil {
		r.Undec("R8", "AddFlow", token.NoPos, "function not found")
		return
	}
	isGetType := func(v ssa.Value) bool { return strings.HasSuffix(Path(v), "GetType(param:flow)") }
	nAdd := 0
	for _, c := range CallsIn(af, false, "FilterNode).addUserFlow", "FilterNode).addSystemFlowStart", "FilterNode).addSystemFlowEnd") {
		callee := c.Common().StaticCallee()
		k, ok := kindOf(c.Block(), isGetType)
		fld := ""
		if callee != nil {
			fld = fieldOfAdder(origin(callee))
		}
		nAdd++
		r.Check(ok && fld != "" && fld == want[k], "R8", fmt.Sprintf("AddFlow/existing-node/kind-%d", k), posOf(c), "a flow of kind %d added to an existing node is appended to %q (want %q)", k, fld, want[k])
	}
	if nAdd != 3 {
		r.Undec("R8", "AddFlow/existing-node", af.Pos(), "expected three add calls, found %d", nAdd)
	}
	nLit := 0
	Instrs(af, func(in ssa.Instruction) {
		a, ok := in.(*ssa.Alloc)
		if !ok || structOf(a.Type()) != "FilterNode" {
			return
		}
		k, okK := kindOf(a.Block(), isGetType)
		var holds []string
		for _, f := range []string{"userFlows", "systemFlowStart", "systemFlowEnd"} {
			if v := litField(a, f); v != nil && Derives(v, func(x ssa.Value) bool { return Path(x) == "param:flow" }) {
				holds = append(holds, f)
			}
		}
		nLit++
		r.Check(okK && len(holds) == 1 && holds[0] == want[k], "R8", fmt.Sprintf("AddFlow/new-node/kind-%d", k), a.Pos(), "a new node for a flow of kind %d holds the flow in %v (want [%s])", k, holds, want[k])
	})
	if nLit != 3 {
		r.Undec("R8", "AddFlow/new-node", af.Pos(), "expected three FilterNode literals, found %d", nLit)
	}
	// read side
	if gs := w.Fn(pkgFilter, "FilterNode.getSystemFlow"); gs == nil {
		r.Undec("R8", "getSystemFlow", token.NoPos, "function not found")
	} else {
		n := 0
		Instrs(gs, func(in ssa.Instruction) {
			u, ok := in.(*ssa.UnOp)
			if !ok || u.Op != token.MUL {
				return
			}
			fa, ok := u.X.(*ssa.FieldAddr)
			if !ok {
				return
			}
			if _, sn := namedOf(fa.X.Type()); sn != "FilterNode" {
				return
			}
			fld := fieldName(fa.X.Type(), fa.Field)
			if fld == "filterRequirements" {
				return
			}
			k, okK := kindOf(u.Block(), func(v ssa.Value) bool { return Path(v) == "param:flowType" })
			n++
			r.Check(okK && fld == want[k] && k != 0, "R8", "getSystemFlow/reads/"+fld, u.Pos(), "kind %d is read from %q (want %q)", k, fld, want[k])
		})
		if n != 2 {
			r.Undec("R8", "getSystemFlow/reads", gs.Pos(), "expected two list reads, found %d", n)
		}
	}
	if gf := w.Fn(pkgFilter, "FilterNode.getFlow"); gf == nil {
		r.Undec("R8", "getFlow", token.NoPos, "function not found")
	} else {
		ok := true
		detail := []string{}
		slot := map[string]ssa.Value{}
		Instrs(gf, func(in ssa.Instruction) {
			st, isSt := in.(*ssa.Store)
			if !isSt {
				return
			}
			inner, ok1 := st.Addr.(*ssa.FieldAddr)
			if !ok1 || fieldName(inner.X.Type(), inner.Field) != "Flow" {
				return
			}
			outer, ok2 := inner.X.(*ssa.FieldAddr)
			if !ok2 {
				return
			}
			if _, sn := namedOf(outer.X.Type()); sn == "FilterResult" {
				slot[fieldName(outer.X.Type(), outer.Field)] = st.Val
			}
		})
		for res, src := range map[string]string{"UserFlow": "getUserFlow(", "SystemFlowStart": "getSystemFlow(", "SystemFlowEnd": "getSystemFlow("} {
			fl := slot[res]
			p := Path(fl)
			good := fl != nil && strings.Contains(p, src) && strings.HasSuffix(p, "#0")
			if good && res != "UserFlow" {
				c, isC := peel(fl).(*ssa.Extract)
				good = isC
				if isC {
					call := c.Tuple.(*ssa.Call)
					kc, isK := peel(call.Call.Args[len(call.Call.Args)-1]).(*ssa.Const)
					if isK && kc.Value != nil {
						n, _ := constant.Int64Val(constant.ToInt(kc.Value))
						good = want[n] == map[string]string{"SystemFlowStart": "systemFlowStart", "SystemFlowEnd": "systemFlowEnd"}[res]
					} else {
						good = false
					}
				}
			}
			if !good {
				ok = false
				detail = append(detail, res+" <- "+trunc(p, 60))
			}
		}
		r.Check(ok, "R8", "getFlow/result-slots", gf.Pos(), "FilterResult.UserFlow/SystemFlowStart/SystemFlowEnd are filled from the lists of the same kind %v", detail)
	}
	if gu := w.Fn(pkgFilter, "FilterNode.getUserFlow"); gu != nil {
		okU := false
		Instrs(gu, func(in ssa.Instruction) {
			if rg, ok := in.(*ssa.Range); ok && Path(rg.X) == "param:node.userFlows" {
				okU = true
			}
		})
		if !okU {
			// rangeindex form
			Instrs(gu, func(in ssa.Instruction) {
				if ia, ok := in.(*ssa.IndexAddr); ok && Path(ia.X) == "param:node.userFlows" {
					okU = true
				}
			})
		}
		r.Check(okU, "R8", "getUserFlow/reads/userFlows", gu.Pos(), "user flows are selected from node.userFlows")
	}
}

// c04ForeignRootConsumedOnce: the entry point handed over by an incorporated
// flow (flowBuilder.foreignRoot) is a one-shot hand-off: every function that
// uses it to wire a connection clears it before returning successfully, so a
// later reference to a flow without an entry in that direction is rejected
// ("foreign root node not found") instead of being wired to the previous flow.
func c04ForeignRootConsumedOnce(w *World, r *Report) {
	n := 0
	for _, f := range w.lunarFns {
		if f.Origin() != nil || fnPkgPath(f) != pkgFlow {
			continue
		}
		var uses []ssa.Instruction
		var clears []*ssa.Store
		Instrs(f, func(in ssa.Instruction) {
			switch x := in.(type) {
			case *ssa.Store:
				if fa, ok := x.Addr.(*ssa.FieldAddr); ok && fieldName(fa.X.Type(), fa.Field) == "foreignRoot" {
					if isNilConst(x.Val) {
						clears = append(clears, x)
					}
				}
			case *ssa.UnOp:
				if fa, ok := x.X.(*ssa.FieldAddr); ok && x.Op == token.MUL && fieldName(fa.X.Type(), fa.Field) == "foreignRoot" {
					// a use is a load that feeds something other than the nil test
					if x.Referrers() != nil {
						for _, u := range *x.Referrers() {
							if b, isB := u.(*ssa.BinOp); isB && (isNilConst(b.X) || isNilConst(b.Y)) {
								continue
							}
							uses = append(uses, x)
							break
						}
					}
				}
			}
		})
		if len(uses) == 0 {
			continue
		}
		n++
		ok := len(clears) >= 1
		for _, u := range uses {
			cleared := false
			for _, c := range clears {
				if domInstr(u, c) {
					cleared = true
				}
			}
			ok = ok && cleared
		}
		// every successful (nil error) return is reached only after the clear
		for _, alt := range ReturnAlts(f, f.Signature.Results().Len()-1) {
			if !isNilConst(alt.Val) {
				continue
			}
			dom := false
			for _, c := range clears {
				if domInstr(c, alt.Ret) {
					dom = true
				}
			}
			ok = ok && dom
		}
		r.Check(ok, "R7", "foreignRoot-consumed-once/"+shortFn(fnID(f)), f.Pos(), "the handed-over entry point is cleared after it is used and before the function returns successfully")
	}
	if n < 2 {
		r.Undec("R7", "foreignRoot-consumed-once", token.NoPos, "expected at least two consumers of flowBuilder.foreignRoot, found %d", n)
	}
}

// c04BuilderHelpers: small helpers the graph builder relies on: setAsRoot
// replaces the root unconditionally (the builder first sets a provisional root
// and then the incorporated flow's own), and a processor reference keeps its
// full `flow.processor` key as ReferenceName (the node key) - it is taken
// before the name is split.
// which of a resource's processors go into the generated system flows, per
// direction and position (reviewed decision table; compared as a boolean
// function of its conditions, decision.go)
var c04ProcessorsByType = []string{
	"(public-types.ResourceProcessorLocationI).GetEnd((public-types.ResourceFlowI).GetRequest(param:sfr.resourceFlow)) <= !(param:connectedAt == 1) ; (param:flowType == 2)",
	"(public-types.ResourceProcessorLocationI).GetEnd((public-types.ResourceFlowI).GetResponse(param:sfr.resourceFlow)) <= !(param:connectedAt == 1) ; !(param:flowType == 2) ; (param:flowType == 1)",
	"(public-types.ResourceProcessorLocationI).GetStart((public-types.ResourceFlowI).GetRequest(param:sfr.resourceFlow)) <= (param:connectedAt == 1) ; (param:flowType == 2)",
	"(public-types.ResourceProcessorLocationI).GetStart((public-types.ResourceFlowI).GetResponse(param:sfr.resourceFlow)) <= !(param:flowType == 2) ; (param:connectedAt == 1) ; (param:flowType == 1)",
	"local:slicelit[:] <= !(param:flowType == 1) ; !(param:flowType == 2)",
}

func c04BuilderHelpers(w *World, r *Report) {
	if gp := w.Fn("lunar/engine/streams/resources/utils", "SystemFlowRepresentation.getProcessorsByType"); gp == nil {
		r.Undec("R7", "getProcessorsByType", token.NoPos, "function not found")
	} else {
		// the numeric constants of the table are StreamTypeRequest/Response and SystemFlowStart
		okC := isConstVal(ssa.NewConst(constant.MakeInt64(2), types.Typ[types.Int]), w.constOf("lunar/engine/streams/public-types", "StreamTypeRequest")) &&
			isConstVal(ssa.NewConst(constant.MakeInt64(1), types.Typ[types.Int]), w.constOf("lunar/engine/streams/public-types", "StreamTypeResponse")) &&
			isConstVal(ssa.NewConst(constant.MakeInt64(1), types.Typ[types.Int]), w.constOf("lunar/engine/streams/internal-types", "SystemFlowStart"))
		if !okC {
			r.Undec("R7", "getProcessorsByType/constants", gp.Pos(), "StreamTypeRequest/StreamTypeResponse/SystemFlowStart are no longer 2/1/1: regenerate the reviewed table")
		} else {
			checkDecision(r, "R7", "getProcessorsByType", gp, 0, c04ProcessorsByType)
		}
	}
	// addEdge de-duplicates by ConnectionEdge.equal (condition and target), not by pointer:
	// every connection builds a fresh edge, an incorporated flow can be built in twice
	if ae := w.Fn(pkgFlow, "FlowGraphNode.addEdge"); ae == nil {
		r.Undec("R7", "FlowGraphNode.addEdge", token.NoPos, "function not found")
	} else {
		var eq []ssa.CallInstruction
		for _, af := range Anons(ae) {
			eq = append(eq, CallsIn(af, false, "ConnectionEdge).equal")...)
		}
		st := fieldStores(ae, "edges")
		ok := len(eq) >= 1 && len(st) == 1
		if ok {
			// the append is not reached when equal() said yes for some existing edge
			for _, c := range eq {
				if c.Parent() == ae && condsHave(CondsOf(st[0].Block()), true, func(v ssa.Value) bool { return v == c.Value() }) {
					ok = false
				}
			}
		}
		r.Check(ok, "R7", "addEdge/duplicates-found-by-equal", ae.Pos(), "addEdge looks for an existing edge with ConnectionEdge.equal (value equality of condition and target; %d call(s)) before appending", len(eq))
	}
	if sr := w.Fn(pkgFlow, "FlowDirection.setAsRoot"); sr == nil {
		r.Undec("R7", "FlowDirection.setAsRoot", token.NoPos, "function not found")
	} else {
		st := fieldStores(sr, "root")
		ok := len(st) == 1 && st[0].Val == ssa.Value(sr.Params[1]) && len(CondsOf(st[0].Block())) == 0 && alwaysRuns(st[0])
		r.Check(ok, "R7", "setAsRoot/replaces-unconditionally", sr.Pos(), "setAsRoot stores the given entry point into fd.root on every call")
	}
	if pr := w.Fn(pkgSCfg, "ProcessorRef.parseRef"); pr == nil {
		r.Undec("R7", "ProcessorRef.parseRef", token.NoPos, "function not found")
	} else {
		rn := fieldStores(pr, "ReferenceName")
		nameStores := fieldStores(pr, "Name")
		ok := len(rn) == 1 && len(CondsOf(rn[0].Block())) == 0 && strings.HasSuffix(Path(rn[0].Val), "pr.Name")
		for _, ns := range nameStores {
			if ok && !domInstr(rn[0], ns) {
				ok = false
			}
		}
		r.Check(ok && len(nameStores) >= 1, "R7", "parseRef/reference-name-is-the-full-key", pr.Pos(), "ReferenceName = the unsplit name, stored before Name is replaced by its last part (a processor of another flow keeps its `flow.processor` node key)")
	}
}
