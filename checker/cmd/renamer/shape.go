package main

// shape mode: behaviour-preserving *reshaping* of every non-test Go file under
// the given module directories (purely syntactic, go/parser + go/format):
//
//	eq    operands of == and != are swapped when both are side-effect free
//	      (identifiers, selector chains, literals, nil)
//	else  `if c { A } else { B }` becomes `if !(c) { B } else { A }`
//	msg   the text of log messages (zerolog Msg/Msgf) and of fmt.Errorf /
//	      errors.New format strings gets a suffix
//	inc   `x++` becomes `x += 1`
//	ord   `a < b` becomes `b > a` (and <=, >, >= likewise) for side-effect free operands
//	lit   the elements of a keyed struct literal are written in reverse order
//	      when every value is side-effect free
//	log   a trace log line is added at the start of every function and of every
//	      if/else body (files that import zerolog's log package)
//	and   operands of && and || are swapped when both only mention plain
//	      identifiers and literals (nothing that can panic or have an effect)
//
// A rule that changes its verdict on such a tree depends on spelling, operand
// order, branch order or message wording instead of behaviour.

import (
	"bytes"
	"fmt"
	"go/ast"
	"go/format"
	"go/parser"
	"go/token"
	"os"
	"path/filepath"
	"strings"
)

func simpleOperand(e ast.Expr) bool {
	switch x := e.(type) {
	case *ast.Ident:
		return true
	case *ast.BasicLit:
		return true
	case *ast.SelectorExpr:
		return simpleOperand(x.X)
	case *ast.ParenExpr:
		return simpleOperand(x.X)
	case *ast.StarExpr:
		return false // a nil dereference panics: keep evaluation order
	}
	return false
}

// plainOperand: an expression over identifiers and literals only (no selector,
// call, index or dereference): evaluating it cannot panic or have an effect.
func plainOperand(e ast.Expr) bool {
	switch x := e.(type) {
	case *ast.Ident, *ast.BasicLit:
		return true
	case *ast.ParenExpr:
		return plainOperand(x.X)
	case *ast.UnaryExpr:
		return x.Op == token.NOT && plainOperand(x.X)
	case *ast.BinaryExpr:
		switch x.Op {
		case token.EQL, token.NEQ, token.LSS, token.LEQ, token.GTR, token.GEQ:
			return plainOperand(x.X) && plainOperand(x.Y)
		}
	}
	return false
}

func shapeFile(path string, kinds map[string]bool, cnt map[string]int) error {
	fset := token.NewFileSet()
	f, err := parser.ParseFile(fset, path, nil, parser.ParseComments)
	if err != nil {
		return err
	}
	for _, cg := range f.Comments {
		for _, c := range cg.List {
			if strings.Contains(c.Text, "Code generated") {
				return nil
			}
		}
	}
	changed := false
	hasLog := false
	for _, im := range f.Imports {
		if im.Path.Value == `"github.com/rs/zerolog/log"` && (im.Name == nil || im.Name.Name == "log") {
			hasLog = true
		}
	}
	logStmt := func() ast.Stmt {
		// log.Trace().Msg("reshaped")
		return &ast.ExprStmt{X: &ast.CallExpr{
			Fun:  &ast.SelectorExpr{X: &ast.CallExpr{Fun: &ast.SelectorExpr{X: ast.NewIdent("log"), Sel: ast.NewIdent("Trace")}}, Sel: ast.NewIdent("Msg")},
			Args: []ast.Expr{&ast.BasicLit{Kind: token.STRING, Value: `"reshaped"`}},
		}}
	}
	shadowsLog := func(fd *ast.FuncDecl) bool {
		sh := false
		ast.Inspect(fd, func(n ast.Node) bool {
			if id, ok := n.(*ast.Ident); ok && id.Name == "log" && id.Obj != nil && id.Obj.Kind == ast.Var {
				sh = true
			}
			return !sh
		})
		return sh
	}
	if kinds["log"] && hasLog {
		for _, d := range f.Decls {
			fd, ok := d.(*ast.FuncDecl)
			if !ok || fd.Body == nil || shadowsLog(fd) {
				continue
			}
			fd.Body.List = append([]ast.Stmt{logStmt()}, fd.Body.List...)
			cnt["log"]++
			changed = true
			ast.Inspect(fd.Body, func(n ast.Node) bool {
				if is, ok := n.(*ast.IfStmt); ok {
					is.Body.List = append([]ast.Stmt{logStmt()}, is.Body.List...)
					cnt["log"]++
					if eb, ok := is.Else.(*ast.BlockStmt); ok {
						eb.List = append([]ast.Stmt{logStmt()}, eb.List...)
						cnt["log"]++
					}
				}
				return true
			})
		}
	}
	ast.Inspect(f, func(n ast.Node) bool {
		switch x := n.(type) {
		case *ast.CompositeLit:
			if kinds["lit"] && len(x.Elts) > 1 {
				ok := true
				for _, e := range x.Elts {
					kv, isKV := e.(*ast.KeyValueExpr)
					if !isKV {
						ok = false
						break
					}
					if _, isID := kv.Key.(*ast.Ident); !isID || !simpleOperand(kv.Value) {
						ok = false
						break
					}
				}
				if _, isArr := x.Type.(*ast.ArrayType); isArr || x.Type == nil {
					ok = false
				}
				if _, isMap := x.Type.(*ast.MapType); isMap {
					ok = false
				}
				if ok {
					for i, j := 0, len(x.Elts)-1; i < j; i, j = i+1, j-1 {
						x.Elts[i], x.Elts[j] = x.Elts[j], x.Elts[i]
					}
					cnt["lit"]++
					changed = true
				}
			}
		case *ast.BinaryExpr:
			if kinds["ord"] && simpleOperand(x.X) && simpleOperand(x.Y) {
				flip := map[token.Token]token.Token{token.LSS: token.GTR, token.GTR: token.LSS, token.LEQ: token.GEQ, token.GEQ: token.LEQ}
				if nop, isOrd := flip[x.Op]; isOrd {
					x.X, x.Y, x.Op = x.Y, x.X, nop
					cnt["ord"]++
					changed = true
				}
			}
			if kinds["and"] && (x.Op == token.LAND || x.Op == token.LOR) && plainOperand(x.X) && plainOperand(x.Y) {
				x.X, x.Y = x.Y, x.X
				cnt["and"]++
				changed = true
			}
			if kinds["eq"] && (x.Op == token.EQL || x.Op == token.NEQ) && simpleOperand(x.X) && simpleOperand(x.Y) {
				x.X, x.Y = x.Y, x.X
				cnt["eq"]++
				changed = true
			}
		case *ast.IfStmt:
			if kinds["else"] {
				if eb, ok := x.Else.(*ast.BlockStmt); ok {
					x.Cond = &ast.UnaryExpr{Op: token.NOT, X: &ast.ParenExpr{X: x.Cond}}
					x.Body, x.Else = eb, x.Body
					cnt["else"]++
					changed = true
				}
			}
		case *ast.IncDecStmt:
			// handled below through the parent block (a statement cannot be replaced in place)
		case *ast.BlockStmt:
			if kinds["inc"] {
				for i, st := range x.List {
					if ids, ok := st.(*ast.IncDecStmt); ok && ids.Tok == token.INC {
						x.List[i] = &ast.AssignStmt{Lhs: []ast.Expr{ids.X}, Tok: token.ADD_ASSIGN, TokPos: ids.TokPos, Rhs: []ast.Expr{&ast.BasicLit{Kind: token.INT, Value: "1"}}}
						cnt["inc"]++
						changed = true
					}
				}
			}
		case *ast.CallExpr:
			if !kinds["msg"] || len(x.Args) == 0 {
				return true
			}
			sel, ok := x.Fun.(*ast.SelectorExpr)
			if !ok {
				return true
			}
			isMsg := sel.Sel.Name == "Msg" || sel.Sel.Name == "Msgf"
			if id, isID := sel.X.(*ast.Ident); isID && (id.Name == "fmt" && sel.Sel.Name == "Errorf" || id.Name == "errors" && sel.Sel.Name == "New") {
				isMsg = true
			}
			if lit, isLit := x.Args[0].(*ast.BasicLit); isMsg && isLit && lit.Kind == token.STRING && len(lit.Value) >= 2 {
				q := lit.Value[len(lit.Value)-1:]
				lit.Value = lit.Value[:len(lit.Value)-1] + " (reworded)" + q
				cnt["msg"]++
				changed = true
			}
		}
		return true
	})
	if !changed {
		return nil
	}
	var buf bytes.Buffer
	if err := format.Node(&buf, fset, f); err != nil {
		return err
	}
	return os.WriteFile(path, buf.Bytes(), 0o644)
}

func shape(repo string, mods []string, kindList string) {
	kinds := map[string]bool{}
	for _, k := range strings.Split(kindList, ",") {
		kinds[strings.TrimSpace(k)] = true
	}
	cnt := map[string]int{}
	files := 0
	for _, m := range mods {
		root := filepath.Join(repo, m)
		err := filepath.Walk(root, func(p string, info os.FileInfo, err error) error {
			if err != nil {
				return err
			}
			if info.IsDir() {
				if info.Name() == "vendor" || info.Name() == "testdata" {
					return filepath.SkipDir
				}
				return nil
			}
			if !strings.HasSuffix(p, ".go") || strings.HasSuffix(p, "_test.go") {
				return nil
			}
			files++
			return shapeFile(p, kinds, cnt)
		})
		if err != nil {
			fmt.Fprintln(os.Stderr, err)
			os.Exit(2)
		}
	}
	fmt.Printf("reshaped %d files: %v\n", files, cnt)
}
