// renamer rewrites, in place, a scratch copy of the repository so that every
// receiver, parameter, named result and local variable of lunar/* packages gets
// a different name. Behaviour is unchanged; the thorough tier uses the result
// to assert that no rule depends on local naming (a check that fires on such a
// tree would be a false alarm).
package main

import (
	"flag"
	"fmt"
	"go/ast"
	"go/token"
	"go/types"
	"os"
	"path/filepath"
	"sort"
	"strings"

	"golang.org/x/tools/go/packages"
)

func main() {
	repo := flag.String("repo", "", "scratch copy of the repository (modified in place)")
	suffix := flag.String("suffix", "Rn", "suffix appended to every local name")
	shapeKinds := flag.String("shape", "", "instead of renaming: reshape the sources, comma separated kinds of eq,else,msg,inc (see shape.go)")
	flag.Parse()
	mods := flag.Args()
	if *shapeKinds != "" && *repo != "" && len(mods) > 0 {
		shape(*repo, mods, *shapeKinds)
		return
	}
	if *repo == "" || len(mods) == 0 {
		fmt.Fprintln(os.Stderr, "usage: renamer -repo DIR module-dir...")
		os.Exit(2)
	}
	env := append(os.Environ(), "GOFLAGS=-mod=mod", "GOWORK=off", "GOPROXY=off", "GOSUMDB=off", "GOTOOLCHAIN=local")
	edits := map[string]map[int]int{} // file -> offset -> ident length
	nObj := map[types.Object]bool{}
	for _, m := range mods {
		cfg := &packages.Config{Mode: packages.NeedName | packages.NeedFiles | packages.NeedSyntax | packages.NeedTypes | packages.NeedTypesInfo | packages.NeedImports | packages.NeedDeps,
			Dir: filepath.Join(*repo, m), Env: env}
		pkgs, err := packages.Load(cfg, "./...")
		if err != nil {
			fmt.Fprintln(os.Stderr, err)
			os.Exit(2)
		}
		packages.Visit(pkgs, nil, func(p *packages.Package) {
			if !strings.HasPrefix(p.PkgPath, "lunar/") || p.TypesInfo == nil {
				return
			}
			want := func(o types.Object) bool {
				v, ok := o.(*types.Var)
				if !ok || v.IsField() || v.Name() == "_" || v.Name() == "" || v.Pkg() != p.Types {
					return false
				}
				if v.Parent() == nil || v.Parent() == p.Types.Scope() || v.Parent() == types.Universe {
					// method receivers/params have a function scope parent; package-level vars are skipped
					return v.Parent() == nil && false
				}
				return true
			}
			mark := func(id *ast.Ident, o types.Object) {
				if o == nil || !want(o) {
					return
				}
				pos := p.Fset.PositionFor(id.Pos(), false)
				if !strings.HasSuffix(pos.Filename, ".go") || strings.HasSuffix(pos.Filename, "_test.go") || !strings.HasPrefix(pos.Filename, *repo) {
					return
				}
				if edits[pos.Filename] == nil {
					edits[pos.Filename] = map[int]int{}
				}
				edits[pos.Filename][pos.Offset] = len(id.Name)
				nObj[o] = true
			}
			for id, o := range p.TypesInfo.Defs {
				mark(id, o)
			}
			for id, o := range p.TypesInfo.Uses {
				mark(id, o)
			}
			// implicit objects (type switch symbolic variables) are declared per clause: their
			// defining identifier is in Defs with a nil object; find it through the clauses.
			for _, f := range p.Syntax {
				ast.Inspect(f, func(n ast.Node) bool {
					ts, ok := n.(*ast.TypeSwitchStmt)
					if !ok {
						return true
					}
					if as, ok := ts.Assign.(*ast.AssignStmt); ok && len(as.Lhs) == 1 {
						if id, ok := as.Lhs[0].(*ast.Ident); ok && id.Name != "_" {
							pos := p.Fset.PositionFor(id.Pos(), false)
							if strings.HasPrefix(pos.Filename, *repo) && !strings.HasSuffix(pos.Filename, "_test.go") {
								if edits[pos.Filename] == nil {
									edits[pos.Filename] = map[int]int{}
								}
								edits[pos.Filename][pos.Offset] = len(id.Name)
							}
						}
					}
					return true
				})
			}
		})
	}
	files := 0
	idents := 0
	for fn, offs := range edits {
		b, err := os.ReadFile(fn)
		if err != nil {
			fmt.Fprintln(os.Stderr, err)
			os.Exit(2)
		}
		var keys []int
		for o := range offs {
			keys = append(keys, o)
		}
		sort.Sort(sort.Reverse(sort.IntSlice(keys)))
		for _, o := range keys {
			end := o + offs[o]
			b = append(b[:end], append([]byte(*suffix), b[end:]...)...)
			idents++
		}
		if err := os.WriteFile(fn, b, 0o644); err != nil {
			fmt.Fprintln(os.Stderr, err)
			os.Exit(2)
		}
		files++
	}
	_ = token.NoPos
	fmt.Printf("renamed %d variables (%d identifiers) in %d files\n", len(nObj), idents, files)
}
