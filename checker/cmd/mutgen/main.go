// mutgen enumerates first-order syntactic mutants of the functions that
// enclose the given lines of one Go file and writes each mutated file to the
// output directory. It is used by the thorough tier to measure which edits of
// the anchored functions the rules notice (rule liveness); it never touches
// the input file.
package main

import (
	"bytes"
	"encoding/json"
	"flag"
	"fmt"
	"go/ast"
	"go/format"
	"go/parser"
	"go/token"
	"os"
	"path/filepath"
	"strconv"
	"strings"
)

type mutant struct {
	ID   int    `json:"id"`
	Op   string `json:"op"`
	Line int    `json:"line"`
	Func string `json:"func"`
	Desc string `json:"desc"`
	File string `json:"file"`
}

type site struct {
	op, desc string
	pos      token.Pos
	apply    func()
	revert   func()
}

var ror = map[token.Token][]token.Token{
	token.LSS: {token.LEQ, token.GEQ},
	token.LEQ: {token.LSS, token.GTR},
	token.GTR: {token.GEQ, token.LEQ},
	token.GEQ: {token.GTR, token.LSS},
	token.EQL: {token.NEQ},
	token.NEQ: {token.EQL},
}

func main() {
	file := flag.String("file", "", "Go source file")
	lines := flag.String("lines", "", "comma separated line numbers; enclosing functions are mutated")
	out := flag.String("out", "", "output directory")
	flag.Parse()
	fset := token.NewFileSet()
	f, err := parser.ParseFile(fset, *file, nil, parser.ParseComments)
	if err != nil {
		fmt.Fprintln(os.Stderr, err)
		os.Exit(2)
	}
	want := map[int]bool{}
	for _, s := range strings.Split(*lines, ",") {
		if n, err := strconv.Atoi(strings.TrimSpace(s)); err == nil {
			want[n] = true
		}
	}
	var muts []mutant
	id := 0
	for _, d := range f.Decls {
		fd, ok := d.(*ast.FuncDecl)
		if !ok || fd.Body == nil {
			continue
		}
		a, b := fset.Position(fd.Pos()).Line, fset.Position(fd.End()).Line
		hit := false
		for l := range want {
			if a <= l && l <= b {
				hit = true
			}
		}
		if !hit {
			continue
		}
		name := fd.Name.Name
		if fd.Recv != nil && len(fd.Recv.List) == 1 {
			var buf bytes.Buffer
			_ = format.Node(&buf, fset, fd.Recv.List[0].Type)
			name = "(" + buf.String() + ")." + name
		}
		for _, s := range sites(fd) {
			s.apply()
			var buf bytes.Buffer
			err := format.Node(&buf, fset, f)
			s.revert()
			if err != nil {
				continue
			}
			id++
			fn := filepath.Join(*out, fmt.Sprintf("m%04d.go", id))
			if err := os.WriteFile(fn, buf.Bytes(), 0o644); err != nil {
				fmt.Fprintln(os.Stderr, err)
				os.Exit(2)
			}
			muts = append(muts, mutant{ID: id, Op: s.op, Line: fset.Position(s.pos).Line, Func: name, Desc: s.desc, File: fn})
		}
	}
	b, _ := json.MarshalIndent(muts, "", " ")
	fmt.Println(string(b))
}

func exprStr(e ast.Node) string {
	var buf bytes.Buffer
	_ = format.Node(&buf, token.NewFileSet(), e)
	s := buf.String()
	s = strings.Join(strings.Fields(s), " ")
	if len(s) > 70 {
		s = s[:70] + "…"
	}
	return s
}

func isCallNamed(e ast.Expr, names ...string) (string, bool) {
	c, ok := e.(*ast.CallExpr)
	if !ok {
		return "", false
	}
	var n string
	switch x := c.Fun.(type) {
	case *ast.SelectorExpr:
		n = x.Sel.Name
	case *ast.Ident:
		n = x.Name
	}
	for _, w := range names {
		if n == w {
			return n, true
		}
	}
	return n, len(names) == 0
}

// sites enumerates mutation sites of one function.
func sites(fd *ast.FuncDecl) []site {
	var out []site
	add := func(op, desc string, pos token.Pos, apply, revert func()) {
		out = append(out, site{op, desc, pos, apply, revert})
	}
	// statement lists: deletion of effect statements
	var visitList func(list *[]ast.Stmt)
	visitList = func(list *[]ast.Stmt) {
		for i := range *list {
			i := i
			st := (*list)[i]
			del := false
			desc := ""
			switch s := st.(type) {
			case *ast.ExprStmt:
				if n, ok := isCallNamed(s.X); ok {
					switch {
					case strings.HasPrefix(n, "Debug"), strings.HasPrefix(n, "Trace"), strings.HasPrefix(n, "Msg"), strings.HasPrefix(n, "Info"), strings.HasPrefix(n, "Warn"), strings.HasPrefix(n, "Err"), n == "Send":
						// logging chains are not behaviour
					default:
						del, desc = true, "delete call "+exprStr(s.X)
					}
				}
			case *ast.DeferStmt:
				del, desc = true, "delete defer "+exprStr(s.Call)
			case *ast.IncDecStmt:
				del, desc = true, "delete "+exprStr(s)
			case *ast.AssignStmt:
				if s.Tok != token.DEFINE {
					del, desc = true, "delete assignment "+exprStr(s)
				}
			case *ast.SendStmt:
				del, desc = true, "delete send "+exprStr(s)
			case *ast.GoStmt:
				del, desc = true, "delete go "+exprStr(s.Call)
			}
			if del {
				orig := st
				add("SDL", desc, st.Pos(), func() { (*list)[i] = &ast.EmptyStmt{Semicolon: orig.Pos(), Implicit: false} }, func() { (*list)[i] = orig })
			}
			if br, ok := st.(*ast.BranchStmt); ok && br.Label == nil && (br.Tok == token.BREAK || br.Tok == token.CONTINUE) {
				o := br.Tok
				n := token.CONTINUE
				if o == token.CONTINUE {
					n = token.BREAK
				}
				add("BRK", o.String()+" -> "+n.String(), br.Pos(), func() { br.Tok = n }, func() { br.Tok = o })
			}
		}
	}
	ast.Inspect(fd.Body, func(n ast.Node) bool {
		switch x := n.(type) {
		case *ast.BlockStmt:
			visitList(&x.List)
		case *ast.CaseClause:
			visitList(&x.Body)
		case *ast.CommClause:
			visitList(&x.Body)
		case *ast.BinaryExpr:
			if alts, ok := ror[x.Op]; ok {
				o := x.Op
				// comparisons with nil only negate
				for _, a := range alts {
					a := a
					if id, isID := x.Y.(*ast.Ident); isID && id.Name == "nil" && a != token.EQL && a != token.NEQ {
						continue
					}
					add("ROR", exprStr(x)+"  :  "+o.String()+" -> "+a.String(), x.OpPos, func() { x.Op = a }, func() { x.Op = o })
				}
			}
			switch x.Op {
			case token.LAND, token.LOR:
				o := x.Op
				n := token.LOR
				if o == token.LOR {
					n = token.LAND
				}
				add("LCR", exprStr(x)+"  :  "+o.String()+" -> "+n.String(), x.OpPos, func() { x.Op = n }, func() { x.Op = o })
				l, r := x.X, x.Y
				add("LCR", exprStr(x)+"  :  drop right operand", x.OpPos, func() { x.Y = l }, func() { x.Y = r })
				add("LCR", exprStr(x)+"  :  drop left operand", x.OpPos, func() { x.X = r }, func() { x.X = l })
			case token.ADD, token.SUB:
				if bl, ok := x.X.(*ast.BasicLit); ok && bl.Kind == token.STRING {
					break
				}
				if bl, ok := x.Y.(*ast.BasicLit); ok && bl.Kind == token.STRING {
					break
				}
				o := x.Op
				n := token.SUB
				if o == token.SUB {
					n = token.ADD
				}
				add("AOR", exprStr(x)+"  :  "+o.String()+" -> "+n.String(), x.OpPos, func() { x.Op = n }, func() { x.Op = o })
			}
		case *ast.IfStmt:
			c := x.Cond
			add("NEG", "if "+exprStr(c)+"  :  negate condition", x.Pos(), func() { x.Cond = &ast.UnaryExpr{Op: token.NOT, X: &ast.ParenExpr{X: c}} }, func() { x.Cond = c })
		case *ast.UnaryExpr:
			if x.Op == token.NOT {
				if p, ok := x.X.(*ast.ParenExpr); ok {
					_ = p
				}
			}
		case *ast.ReturnStmt:
			for i, r := range x.Results {
				i, r := i, r
				if id, ok := r.(*ast.Ident); ok {
					switch id.Name {
					case "true", "false":
						n := "false"
						if id.Name == "false" {
							n = "true"
						}
						add("RET", "return "+id.Name+" -> "+n, x.Pos(), func() { x.Results[i] = ast.NewIdent(n) }, func() { x.Results[i] = r })
					case "err":
						if i == len(x.Results)-1 {
							add("RET", "return err -> nil", x.Pos(), func() { x.Results[i] = ast.NewIdent("nil") }, func() { x.Results[i] = r })
						}
					}
				}
			}
		case *ast.IncDecStmt:
			o := x.Tok
			n := token.DEC
			if o == token.DEC {
				n = token.INC
			}
			add("AOR", exprStr(x)+"  :  "+o.String()+" -> "+n.String(), x.Pos(), func() { x.Tok = n }, func() { x.Tok = o })
		case *ast.AssignStmt:
			if x.Tok == token.ADD_ASSIGN || x.Tok == token.SUB_ASSIGN {
				o := x.Tok
				n := token.SUB_ASSIGN
				if o == token.SUB_ASSIGN {
					n = token.ADD_ASSIGN
				}
				add("AOR", exprStr(x)+"  :  "+o.String()+" -> "+n.String(), x.Pos(), func() { x.Tok = n }, func() { x.Tok = o })
			}
		}
		return true
	})
	return out
}
