#!/usr/bin/env python3
"""C19 static checker for the Python interceptor (stdlib `ast` only; nothing of the
interceptor is imported or executed). Decides structural necessary conditions of the
fail-safe / traffic-filter property on the CURRENT source under /repo."""
import ast, ipaddress, json, os, re, sys, time

REPO = os.environ.get("LUNAR_REPO", "/repo")
VERIF = os.path.dirname(os.path.dirname(os.path.abspath(__file__)))
# evidence/replay output directory (the thorough tier analyses scratch variants into a temp dir)
OUT = os.environ.get("LUNAR_VERIF_OUT", VERIF)
BASE = os.path.join(REPO, "interceptors/lunar-py-interceptor/lunar_interceptor/src/lunar_interceptor")
FILES = {
    "fail_safe": "interceptor/fail_safe.py",
    "traffic_filter": "interceptor/traffic_filter.py",
    "configuration": "interceptor/configuration.py",
    "init": "__init__.py",
    "requests_hook": "interceptor/hooks/requests.py",
    "tornado_hook": "interceptor/hooks/tornado.py",
    "aiohttp_hook": "interceptor/hooks/aiohttp.py",
    "helpers": "interceptor/hooks/helpers.py",
}
PROP = "C19"
obs = []


def rel(path):
    return os.path.relpath(path, REPO)


def add(rule, key, verdict, where, detail, inspected=1):
    obs.append({"key": f"{PROP}/{rule}/{key}", "rule": f"{PROP}.{rule}", "verdict": verdict, "where": where, "detail": detail, "inspected": inspected})


def check(ok, rule, key, where, detail):
    add(rule, key, "HOLDS" if ok else "VIOLATION", where, detail)
    return ok


def undec(rule, key, where, detail):
    add(rule, key, "UNDECIDED", where, detail, 0)


def src(node):
    try:
        return ast.unparse(node)
    except Exception:
        return "?"


def load():
    mods = {}
    for k, p in FILES.items():
        path = os.path.join(BASE, p)
        with open(path) as f:
            mods[k] = (ast.parse(f.read(), path), path)
    return mods


def find_class(tree, name):
    for n in ast.walk(tree):
        if isinstance(n, ast.ClassDef) and n.name == name:
            return n
    return None


def find_func(node, name):
    for n in ast.walk(node):
        if isinstance(n, (ast.FunctionDef, ast.AsyncFunctionDef)) and n.name == name:
            return n
    return None


def loc(path, node):
    return f"{rel(path)}:{getattr(node, 'lineno', 0)}"


def self_attr(node, name=None):
    return isinstance(node, ast.Attribute) and isinstance(node.value, ast.Name) and node.value.id == "self" and (name is None or node.attr == name)


# ---- comparison normal form: returns (lhs_src, op, rhs_src) with op in < <= > >= == != ----
OPS = {ast.Lt: "<", ast.LtE: "<=", ast.Gt: ">", ast.GtE: ">=", ast.Eq: "==", ast.NotEq: "!=", ast.Is: "is", ast.IsNot: "is not"}
NEG = {"<": ">=", "<=": ">", ">": "<=", ">=": "<", "==": "!=", "!=": "==", "is": "is not", "is not": "is"}
FLIP = {"<": ">", "<=": ">=", ">": "<", ">=": "<=", "==": "==", "!=": "!="}


def norm(test, pol=True):
    """Flatten a condition into a list of (lhs, op, rhs, polarity-applied) atoms that all hold (conjunction) or None."""
    if isinstance(test, ast.UnaryOp) and isinstance(test.op, ast.Not):
        return norm(test.operand, not pol)
    if isinstance(test, ast.BoolOp):
        if (isinstance(test.op, ast.And) and pol) or (isinstance(test.op, ast.Or) and not pol):
            out = []
            for v in test.values:
                r = norm(v, pol)
                if r is None:
                    return None
                out += r
            return out
        return None  # disjunction: no single conjunction of atoms
    if isinstance(test, ast.Compare) and len(test.ops) == 1:
        op = OPS.get(type(test.ops[0]))
        if op is None:
            return None
        if not pol:
            op = NEG[op]
        return [(src(test.left), op, src(test.comparators[0]))]
    return [(src(test), "truthy" if pol else "falsy", "")]


def has_rel(atoms, l, op, r):
    for (a, o, b) in atoms or []:
        if a == l and b == r and o == op:
            return True
        if a == r and b == l and o in FLIP and FLIP[o] == op:
            return True
    return False


# ---- R1 __exit__ ----
def r1(mods):
    tree, path = mods["fail_safe"]
    cls = find_class(tree, "FailSafe")
    ex = find_func(cls, "__exit__") if cls else None
    if ex is None:
        return undec("R1", "__exit__", rel(path), "FailSafe.__exit__ not found")
    args = [a.arg for a in ex.args.args]
    exc_type = args[1] if len(args) > 1 else "exc_type"
    # The verdict of __exit__ is read off its decision table (R7 machinery: rows
    # `outcome <= conjunction of conditions`, boolean locals replaced by their definition,
    # conditions in normal form), so the shape of the if/elif ladder does not matter.
    rows = decision_table(ex)
    none_atom = " is ".join(sorted((exc_type, "None")))
    sub_atom = f"issubclass({exc_type}, self._handle_on)"

    def has(row, atom, pol):
        return (atom if pol else "!" + atom) in row["when"]

    n_true_handled = n_false = n_true_ok = 0
    verdicts = {}  # key -> [ok, message, offending conditions]

    def note(key, ok, msg, where):
        v = verdicts.setdefault(key, [True, msg, []])
        if not ok:
            v[0] = False
            v[2].append(where)

    for row in rows:
        out, where = row["out"], " ; ".join(row["when"])
        handled = has(row, sub_atom, True) and has(row, none_atom, False)
        no_exc = has(row, none_atom, True)
        if out == "RET True":
            if handled:
                n_true_handled += 1
                note("exit/true-for-handled-exception", True, "returns True under exc_type is not None and issubclass(exc_type, self._handle_on)", where)
            else:
                n_true_ok += 1 if no_exc else 0
                note("exit/true-only-without-exception", no_exc, "besides handled gateway errors, True is returned only when no exception is in flight (an application exception must never be swallowed)", where)
        elif out == "RET False":
            n_false += 1
            note("exit/false-propagates-foreign-exception", has(row, none_atom, False) and has(row, sub_atom, False), "False is returned exactly for an exception that is not a gateway error", where)
        elif out.startswith("RET") or out.startswith("RAISE"):
            note("exit/unexpected-return", False, f"__exit__ does `{out}`", where)
        elif out == "DO self._on_error()":
            note("exit/on-error-only-for-handled", handled, "_on_error() is called only for a handled (gateway) exception", where)
        elif out.replace(" ", "") == "DOself._error_counter=0":
            note("exit/counter-reset-only-on-success", no_exc, "the consecutive-failure counter is cleared only when the block ended without any exception (an application exception is not a gateway success)", where)
    for key, (ok, msg, wheres) in sorted(verdicts.items()):
        check(ok, "R1", key, loc(path, ex), msg + ("" if ok else f"; violated under {wheres[:2]}"))
    if n_true_handled < 1 or n_false < 1 or n_true_ok < 1:
        undec("R1", "exit/shape", loc(path, ex), f"expected a handled-True, a no-exception-True and a False outcome; found {n_true_handled}/{n_true_ok}/{n_false}")
    if not any(r_["out"] == "DO self._on_error()" for r_ in rows):
        check(False, "R1", "exit/on-error-only-for-handled", loc(path, ex), "_on_error() is never called: gateway failures are not counted")
    if not any(r_["out"].replace(" ", "") == "DOself._error_counter=0" for r_ in rows):
        check(False, "R1", "exit/counter-reset-only-on-success", loc(path, ex), "the consecutive-failure counter is never cleared on success")
    # writers of _error_counter = 0
    for n in ast.walk(cls):
        if isinstance(n, ast.Assign) and len(n.targets) == 1 and self_attr(n.targets[0], "_error_counter") and isinstance(n.value, ast.Constant) and n.value.value == 0:
            fn = enclosing(cls, n)
            check(fn in ("__init__", "__exit__"), "R1", f"writers(_error_counter=0)/{fn}", loc(path, n), f"counter reset in {fn}")


def enclosing(cls, node):
    for f in ast.walk(cls):
        if isinstance(f, (ast.FunctionDef, ast.AsyncFunctionDef)):
            for x in ast.walk(f):
                if x is node:
                    return f.name
    return "?"


# ---- R2 state writes ----
def r2(mods):
    tree, path = mods["fail_safe"]
    cls = find_class(tree, "FailSafe")
    if cls is None:
        return undec("R2", "FailSafe", rel(path), "class not found")
    writes = []
    for f in cls.body:
        if not isinstance(f, ast.FunctionDef):
            continue
        for n in ast.walk(f):
            if isinstance(n, ast.Assign) and len(n.targets) == 1 and self_attr(n.targets[0], "_state_ok") and isinstance(n.value, ast.Constant):
                writes.append((f, n, n.value.value))
    for f, n, val in writes:
        if f.name == "__init__":
            check(val is True, "R2", "state/init-closed", loc(path, n), "the circuit starts closed (state_ok = True)")
        elif val is False:
            ok = f.name == "_ensure_enter_fail_safe"
            # preceded by: if self._max_errors_allowed > self._error_counter: return
            guard = False
            cool = False
            for st in f.body:
                if isinstance(st, ast.If) and len(st.body) == 1 and isinstance(st.body[0], ast.Return) and st.lineno < n.lineno:
                    atoms = norm(st.test, True)
                    if has_rel(atoms, "self._max_errors_allowed", ">", "self._error_counter"):
                        guard = True
                if isinstance(st, ast.Assign) and self_attr(st.targets[0], "_cooldown_started_at") and src(st.value) == "time()":
                    cool = True
            check(ok and guard and cool, "R2", "state/open-iff-counter-reached-max", loc(path, n),
                  f"state_ok = False only in _ensure_enter_fail_safe, after `if max_errors_allowed > error_counter: return` (guard={guard}) with the cool-down start stamped (={cool}): the circuit opens iff counter >= max")
        else:
            ok = f.name == "_ensure_exit_fail_safe"
            guard = False
            for st in ast.walk(f):
                if isinstance(st, ast.If) and any(x is n for b in st.body for x in ast.walk(b)):
                    atoms = norm(st.test, True)
                    a1 = any(a == "self._state_ok" and o == "falsy" for (a, o, b) in atoms or [])
                    a2 = has_rel(atoms, "time() - self._cooldown_started_at", ">=", "self._cooldown_time")
                    guard = a1 and a2
            check(ok and guard, "R2", "state/close-after-cooldown", loc(path, n), "state_ok = True only in _ensure_exit_fail_safe under `not state_ok and time() - cooldown_started_at >= cooldown_time`")
    if len([w for w in writes if w[2] is False]) != 1 or len([w for w in writes if w[2] is True and w[0].name != "__init__"]) != 1:
        undec("R2", "state/write-sites", rel(path), f"expected one open and one close site, found {[(f.name, v) for f, _, v in writes]}")
    # counter increment
    oe = find_func(cls, "_on_error")
    ok = False
    if oe:
        inc = [n for n in ast.walk(oe) if isinstance(n, ast.AugAssign) and self_attr(n.target, "_error_counter") and isinstance(n.op, ast.Add) and src(n.value) == "1"]
        call = [n for n in ast.walk(oe) if isinstance(n, ast.Call) and src(n.func) == "self._ensure_enter_fail_safe"]
        ok = len(inc) == 1 and len(call) == 1 and inc[0].lineno < call[0].lineno
    check(ok, "R2", "on_error/increment-then-evaluate", loc(path, oe) if oe else rel(path), "_on_error adds exactly 1 to the counter and then evaluates the threshold")
    so = find_func(cls, "state_ok")
    ok = False
    if so:
        stmts = [s for s in so.body if not isinstance(s, ast.Expr) or not isinstance(getattr(s, "value", None), ast.Constant)]
        ok = len(stmts) == 2 and src(stmts[0]).startswith("self._ensure_exit_fail_safe()") and isinstance(stmts[1], ast.Return) and src(stmts[1].value) == "self._state_ok"
    check(ok, "R2", "state_ok/re-evaluates-before-answering", loc(path, so) if so else rel(path), "state_ok first gives the cool-down a chance to end, then returns the flag")


# ---- R3 wiring: env var -> compared attribute ----
def r3(mods):
    ctree, cpath = mods["configuration"]
    itree, ipath = mods["init"]
    ftree, fpath = mods["fail_safe"]
    consts = {}
    for n in ctree.body:
        if isinstance(n, ast.Assign) and isinstance(n.value, ast.Constant) and isinstance(n.value.value, str):
            consts[n.targets[0].id] = n.value.value
    fc = find_class(ctree, "FailSafeConfig")
    field_env = {}
    if fc:
        for n in fc.body:
            if isinstance(n, ast.AnnAssign) and isinstance(n.value, ast.Call) and src(n.value.func) == "load_env_value":
                a0 = n.value.args[0]
                field_env[n.target.id] = consts.get(a0.id) if isinstance(a0, ast.Name) else None
    # __init__.py: FailSafe(kw=interceptor_config.fail_safe_config.<field>)
    kw_field = {}
    for n in ast.walk(itree):
        if isinstance(n, ast.Call) and src(n.func) == "FailSafe":
            for kw in n.keywords:
                s = src(kw.value)
                if ".fail_safe_config." in s:
                    kw_field[kw.arg] = s.split(".")[-1]
    # FailSafe.__init__: self.<attr> = <param> or DEFAULT
    cls = find_class(ftree, "FailSafe")
    attr_param = {}
    ini = find_func(cls, "__init__") if cls else None
    if ini:
        params = {a.arg for a in ini.args.args}
        for n in ast.walk(ini):
            tgt = None
            val = None
            if isinstance(n, ast.AnnAssign):
                tgt, val = n.target, n.value
            elif isinstance(n, ast.Assign):
                tgt, val = n.targets[0], n.value
            if tgt is not None and self_attr(tgt):
                for x in ast.walk(val):
                    if isinstance(x, ast.Name) and x.id in params:
                        attr_param[tgt.attr] = x.id
    def env_of(attr):
        p = attr_param.get(attr)
        f = kw_field.get(p)
        return field_env.get(f), (attr, p, f)
    want = {"_max_errors_allowed": "LUNAR_ENTER_COOLDOWN_AFTER_ATTEMPTS", "_cooldown_time": "LUNAR_EXIT_COOLDOWN_AFTER_SEC"}
    for attr, env in want.items():
        got, chain = env_of(attr)
        check(got == env, "R3", f"wiring/{attr}", rel(fpath), f"the attribute compared with {'the failure counter' if attr == '_max_errors_allowed' else 'the elapsed time'} ({attr}) is fed by env {got} through {chain} (want {env}); the rule follows the data, not the parameter names")
    # defaults have the right kind
    if ini:
        for n in ast.walk(ini):
            if isinstance(n, (ast.AnnAssign, ast.Assign)):
                tgt = n.target if isinstance(n, ast.AnnAssign) else n.targets[0]
                if self_attr(tgt) and tgt.attr in want and n.value is not None:
                    # the default constant the assignment mentions (`x or DEFAULT`, or a helper given DEFAULT)
                    ds = sorted({x.id for x in ast.walk(n.value) if isinstance(x, ast.Name) and x.id.startswith("_DEFAULT")})
                    d = ",".join(ds)
                    ok = (tgt.attr == "_max_errors_allowed" and ds == ["_DEFAULT_MAX_ERROR_ALLOWED"]) or (tgt.attr == "_cooldown_time" and ds == ["_DEFAULT_FAILSAFE_COOLDOWN_SEC"])
                    check(ok, "R3", f"wiring/default/{tgt.attr}", loc(fpath, n), f"{tgt.attr} falls back to {d}")


# ---- R4 hook ----
def r4(mods):
    tree, path = mods["requests_hook"]
    req = find_func(tree, "_request")
    if req is None:
        return undec("R4", "_request", rel(path), "hook function not found")
    withs = [n for n in req.body if isinstance(n, ast.With) and any(src(i.context_expr) == "self._fail_safe" for i in n.items)]
    if len(withs) != 1:
        return undec("R4", "with-fail-safe", loc(path, req), f"expected one `with self._fail_safe:` block, found {len(withs)}")
    w = withs[0]
    ok = False
    for st in w.body:
        if isinstance(st, ast.If):
            atoms = norm(st.test, True) or []
            a1 = any(a == "self._fail_safe.state_ok" and o == "truthy" for (a, o, b) in atoms)
            a2 = any(a.startswith("self._traffic_filter.is_allowed(") and o == "truthy" for (a, o, b) in atoms)
            ret = any(isinstance(x, ast.Return) and "self._make_request(" in src(x) for x in st.body)
            ok = a1 and a2 and ret
    check(ok, "R4", "hook/gateway-call-inside-fail-safe-and-guarded", loc(path, w), "the call through the gateway is inside `with self._fail_safe:` and guarded by state_ok and is_allowed(...)")
    # direct call after the with block
    after = [st for st in req.body if st.lineno > w.end_lineno]
    direct = any(isinstance(st, ast.Return) and "self._original_function(" in src(st) for st in after)
    in_with_direct = any("self._original_function(" in src(st) for st in w.body)
    check(direct and not in_with_direct, "R4", "hook/direct-call-after-fail-safe", loc(path, req), "the direct provider call follows the with-block (its exceptions are the application's, never counted as gateway failures)")
    # gateway errors are registered as handled
    hook_cls = find_class(tree, "RequestsHook")
    ok = any(isinstance(n, ast.Call) and src(n.func) == "self._fail_safe.handle_on" for n in ast.walk(hook_cls)) if hook_cls else False
    check(ok, "R4", "hook/registers-connection-errors", rel(path), "the hook registers its connection-error type with the fail-safe")
    # ... and only connection-level ones: a timeout while reading the provider's answer through a healthy
    # gateway is the provider's slowness, not a gateway failure (reviewed set per hook)
    allowed = {"requests.ConnectionError"}
    for n in (ast.walk(hook_cls) if hook_cls else []):
        if isinstance(n, ast.Call) and src(n.func) == "self._fail_safe.handle_on" and n.args:
            arg = n.args[0]
            elems = [src(e) for e in arg.elts] if isinstance(arg, (ast.Tuple, ast.List)) else [src(arg)]
            extra = sorted(set(elems) - allowed)
            check(not extra and bool(elems), "R4", "hook/handled-exceptions-are-connection-level", loc(path, n),
                  f"exceptions counted as gateway failures: {elems}; beyond the reviewed connection-level set: {extra}")


# ---- R5 no raise from the decision ----
RAISERS = {"ip_address": "ValueError", "IPv4Address": "ValueError", "IPv6Address": "ValueError", "IPv4Network": "ValueError", "gethostbyname": "OSError", "getaddrinfo": "OSError", "int": "ValueError"}
COVERS = {"ValueError": {"ValueError", "Exception", "BaseException", "AddressValueError", None}, "OSError": {"OSError", "socket_error", "error", "Exception", "BaseException", "gaierror", None}}


def r5(mods):
    tree, path = mods["traffic_filter"]
    cls = find_class(tree, "TrafficFilter")
    if cls is None:
        return undec("R5", "TrafficFilter", rel(path), "class not found")
    funcs = {f.name: f for f in cls.body if isinstance(f, ast.FunctionDef)}
    # call tree of is_allowed
    seen, work = set(), ["is_allowed"]
    while work:
        n = work.pop()
        if n in seen or n not in funcs:
            continue
        seen.add(n)
        for c in ast.walk(funcs[n]):
            if isinstance(c, ast.Call) and isinstance(c.func, ast.Attribute) and isinstance(c.func.value, ast.Name) and c.func.value.id == "self":
                work.append(c.func.attr)
    if len(seen) < 8:
        undec("R5", "call-tree", rel(path), f"decision call tree has {len(seen)} functions, hand-confirmed minimum 8")
    n_sites = 0

    def guarded(func, call, exc):
        # lexically inside a try whose handlers cover exc
        for t in ast.walk(func):
            if isinstance(t, ast.Try) and any(x is call for b in t.body for x in ast.walk(b)):
                for h in t.handlers:
                    names = [None] if h.type is None else [getattr(e, "id", getattr(e, "attr", None)) for e in (h.type.elts if isinstance(h.type, ast.Tuple) else [h.type])]
                    if any(nm in COVERS[exc] for nm in names):
                        return True
        return False

    for name in sorted(seen):
        f = funcs[name]
        for c in ast.walk(f):
            if isinstance(c, ast.Call):
                fn = getattr(c.func, "id", None)
                if fn in RAISERS:
                    n_sites += 1
                    exc = RAISERS[fn]
                    check(guarded(f, c, exc), "R5", f"no-raise/{name}/{fn}", loc(path, c), f"{fn}(...) can raise {exc}; it is lexically inside a try whose handler covers it (a raise here escapes is_allowed into the application, because the fail-safe does not handle it)")
                # a self-call that is itself a raiser must be guarded at the call site or inside
            if isinstance(c, ast.Raise):
                check(False, "R5", f"no-raise/{name}/raise", loc(path, c), "explicit raise in the decision call tree")
            if isinstance(c, ast.Subscript) and isinstance(c.ctx, ast.Load) and isinstance(c.value, ast.Name) and c.value.id.startswith("_") and c.value.id.isupper():
                check(False, "R5", f"no-raise/{name}/constant-index", loc(path, c), f"{src(c)} can raise KeyError; use .get with a default")
    if n_sites < 3:
        undec("R5", "raiser-sites", rel(path), f"found {n_sites} calls that can raise, hand-confirmed minimum 3")


# ---- R6 private-range table and verdict composition ----
def r6(mods):
    tree, path = mods["traffic_filter"]
    table = None
    black = None
    for n in tree.body:
        tgt = n.target if isinstance(n, ast.AnnAssign) else (n.targets[0] if isinstance(n, ast.Assign) else None)
        if tgt is not None and getattr(tgt, "id", "") == "_PRIVATE_IP_RANGES" and isinstance(n.value, ast.Dict):
            table = n
        if tgt is not None and getattr(tgt, "id", "") == "_BLACK_HOLE":
            black = n
    if table is None:
        return undec("R6", "table", rel(path), "_PRIVATE_IP_RANGES literal not found")
    nets = {}
    for k, v in zip(table.value.keys, table.value.values):
        if isinstance(k, ast.Constant) and isinstance(v, ast.Call) and v.args and isinstance(v.args[0], ast.Constant):
            nets[k.value] = ipaddress.IPv4Network(v.args[0].value)
    want = {ipaddress.IPv4Network(x) for x in ("10.0.0.0/8", "127.0.0.0/8", "172.16.0.0/12", "192.168.0.0/16")}
    check(set(nets.values()) == want, "R6", "table/networks", loc(path, table), f"private/loopback networks = {sorted(str(n) for n in nets.values())} (want 10/8, 127/8, 172.16/12, 192.168/16)")
    # each key must equal the 2-character prefix of EVERY address of its network (evaluated from the literals)
    for k, net in sorted(nets.items()):
        prefixes = set()
        first = int(net.network_address)
        last = int(net.broadcast_address)
        # first octet (and for 172.16/12 second octet) determine the 2-char prefix; enumerate first two octets
        a = first >> 24
        for second in range((first >> 16) & 0xFF, ((last >> 16) & 0xFF) + 1):
            prefixes.add(f"{a}.{second}"[:2])
        check(prefixes == {k}, "R6", f"table/key-is-prefix/{k}", loc(path, table), f"every address of {net} starts with {sorted(prefixes)}; table key is '{k}'")
    # lookup uses the 2-char prefix with the black-hole default
    cls = find_class(tree, "TrafficFilter")
    ie = find_func(cls, "_is_external_ip") if cls else None
    ok = False
    if ie:
        for n in ast.walk(ie):
            if isinstance(n, ast.Compare) and isinstance(n.ops[0], ast.NotIn):
                ok = src(n.comparators[0]) == "_PRIVATE_IP_RANGES.get(ip[:2], _BLACK_HOLE)"
    check(ok, "R6", "is_external_ip/lookup-with-default", loc(path, ie) if ie else rel(path), "external = address not in _PRIVATE_IP_RANGES.get(ip[:2], _BLACK_HOLE) (0.0.0.0 stays non-external through the default)")
    check(black is not None and "0.0.0.0/32" in src(black.value), "R6", "table/black-hole", rel(path), "_BLACK_HOLE is 0.0.0.0/32")
    # verdict composition
    f = find_func(cls, "_check_if_host_or_ip_is_allowed") if cls else None
    ok = False
    if f:
        rets = [n for n in ast.walk(f) if isinstance(n, ast.Return)]
        s = [src(r.value) for r in rets]
        ok = "is_allowed" in s and "self._check_blocked(host_or_ip) and self._is_external(host_or_ip)" in s and len(s) == 2
    check(ok, "R6", "verdict/allow-list-else-not-blocked-and-external", loc(path, f) if f else rel(path), "verdict = allow-list verdict when a list exists, otherwise (not blocked) and external")
    f = find_func(cls, "_is_external") if cls else None
    ok = False
    if f:
        for n in ast.walk(f):
            if isinstance(n, ast.If) and src(n.test) == "is_external is None" and any(isinstance(x, ast.Return) and src(x.value) == "False" for x in n.body):
                ok = True
    check(ok, "R6", "verdict/unresolved-host-not-routed", loc(path, f) if f else rel(path), "a host that cannot be resolved is not routed through the gateway (and the miss is not cached)")
    f = find_func(cls, "is_allowed") if cls else None
    ok = False
    if f and isinstance(f.body[-1], ast.Return):
        first_if = [s for s in f.body if isinstance(s, ast.If)]
        ok = bool(first_if) and src(first_if[0].test) == "not self._state_ok" and src(first_if[0].body[0]) == "return False" and "self._check_if_host_or_ip_is_allowed(" in src(f.body[-1])
    check(ok, "R6", "verdict/invalid-lists-disable-routing", loc(path, f) if f else rel(path), "with invalid lists nothing is routed; otherwise the header override, then the host/IP verdict")


# ---- R7 decision tables: the small verdict functions return/do exactly the reviewed things
# under exactly the reviewed conditions.  Both the reviewed table and the current function are
# read as "outcome <= conjunction of conditions" rows and compared, outcome by outcome, as
# boolean functions over the conditions (truth table): rewriting an if-ladder as one boolean
# expression, nesting or merging tests, De Morgan, `a != b` for `not a == b`, operand order and
# `return cond` for `if cond: return True ... return False` all leave the table unchanged;
# statements that only log are ignored ----
def _atom(test, pol):
    """one comparison/test as (atom text, polarity) in the ==, <, is, in forms"""
    if isinstance(test, ast.Compare) and len(test.ops) == 1:
        op, l, r = test.ops[0], src(test.left), src(test.comparators[0])
        if isinstance(op, (ast.Eq, ast.NotEq)):
            l, r = sorted((l, r))
            return f"{l} == {r}", pol == isinstance(op, ast.Eq)
        if isinstance(op, (ast.Is, ast.IsNot)):
            l, r = sorted((l, r))
            return f"{l} is {r}", pol == isinstance(op, ast.Is)
        if isinstance(op, (ast.In, ast.NotIn)):
            return f"{l} in {r}", pol == isinstance(op, ast.In)
        if isinstance(op, ast.Lt):
            return f"{l} < {r}", pol
        if isinstance(op, ast.Gt):
            return f"{r} < {l}", pol
        if isinstance(op, ast.LtE):
            return f"{r} < {l}", not pol
        if isinstance(op, ast.GtE):
            return f"{l} < {r}", not pol
    return src(test), pol


# a condition on a variable that was assigned in between is a different condition: atoms that
# mention an assigned name carry the number of assignments seen so far on the way
_VERS = {}


def _tag(atom):
    tags = [f"{n}#{k}" for n, k in sorted(_VERS.items()) if k and re.search(r"(?<![\w.])" + re.escape(n) + r"(?![\w])", atom)]
    return atom + (" @" + ",".join(tags) if tags else "")


def _product(xs, ys):
    out = []
    for x in xs:
        for y in ys:
            d = dict(x)
            ok = True
            for a, p in y:
                if d.get(a, p) != p:
                    ok = False
                    break
                d[a] = p
            if ok:
                out.append(frozenset(d.items()))
    return out


# boolean locals that are assigned once from a boolean expression stand for that expression
_DEFS = {}


def cond_dnf(test, pol=True):
    """disjunctive normal form of a branch condition: list of frozenset((atom, polarity))"""
    if isinstance(test, ast.Name) and test.id in _DEFS:
        return cond_dnf(_DEFS[test.id], pol)
    if isinstance(test, ast.UnaryOp) and isinstance(test.op, ast.Not):
        return cond_dnf(test.operand, not pol)
    if isinstance(test, ast.Constant) and isinstance(test.value, bool):
        return [frozenset()] if test.value == pol else []
    if isinstance(test, ast.BoolOp):
        conj = isinstance(test.op, ast.And) == pol
        parts = [cond_dnf(v, pol) for v in test.values]
        if conj:
            out = [frozenset()]
            for p_ in parts:
                out = _product(out, p_)
            return out
        return [c for p_ in parts for c in p_]
    a, p_ = _atom(test, pol)
    return [frozenset([(_tag(a), p_)])]


def _is_boolean_expr(e):
    return isinstance(e, (ast.Compare, ast.BoolOp)) or (isinstance(e, ast.UnaryOp) and isinstance(e.op, ast.Not)) or (isinstance(e, ast.Constant) and isinstance(e.value, bool))


def decision_table(fn):
    rows = []  # (outcome, frozenset of literals)

    def is_log(st):
        t = src(st)
        return "_logger." in t or t.startswith("logger.") or t.startswith("logging.") or (isinstance(st, ast.Expr) and isinstance(st.value, ast.Constant))

    def emit(out, conds):
        for c in conds:
            rows.append((out, c))

    def mark(conds, text):
        return _product(conds, [frozenset([(text, True)])])

    def walk(stmts, conds):
        for st in stmts:
            if isinstance(st, ast.If):
                pos, neg = _product(conds, cond_dnf(st.test, True)), _product(conds, cond_dnf(st.test, False))
                v0 = dict(_VERS)
                a = walk(st.body, pos)
                v1 = dict(_VERS)
                _VERS.clear()
                _VERS.update(v0)
                b = walk(st.orelse, neg) if st.orelse else neg
                for n, k in v1.items():
                    _VERS[n] = max(_VERS.get(n, 0), k)
                if a is None and b is None:
                    return None
                if a is None:
                    conds = b
                elif b is None:
                    conds = a
                continue
            if isinstance(st, (ast.For, ast.While)):
                hdr = f"for {src(st.target)} in {src(st.iter)}" if isinstance(st, ast.For) else f"while {src(st.test)}"
                walk(st.body, mark(conds, hdr))
                continue
            if isinstance(st, ast.Try):
                walk(st.body, mark(conds, "try"))
                for h in st.handlers:
                    walk(h.body, mark(conds, f"except {src(h.type) if h.type else ''}"))
                walk(st.finalbody, mark(conds, "finally"))
                continue
            if isinstance(st, ast.With):
                walk(st.body, mark(conds, f"with {', '.join(src(i.context_expr) for i in st.items)}"))
                continue
            if isinstance(st, ast.Return):
                if st.value is not None and _is_boolean_expr(st.value):
                    emit("RET True", _product(conds, cond_dnf(st.value, True)))
                    emit("RET False", _product(conds, cond_dnf(st.value, False)))
                else:
                    emit(f"RET {src(st.value) if st.value else 'None'}", conds)
                return None
            if isinstance(st, ast.Raise):
                emit(f"RAISE {src(st.exc) if st.exc else ''}", conds)
                return None
            if is_log(st) or isinstance(st, ast.Pass):
                continue
            if isinstance(st, ast.Assign) and len(st.targets) == 1 and isinstance(st.targets[0], ast.Name) and st.targets[0].id in _DEFS and _DEFS[st.targets[0].id] is st.value:
                continue  # the definition of a boolean local: no effect of its own
            emit(f"DO {src(st)}", conds)
            if isinstance(st, (ast.Assign, ast.AugAssign, ast.AnnAssign)):
                tgts = st.targets if isinstance(st, ast.Assign) else [st.target]
                for t in tgts:
                    for n in (t.elts if isinstance(t, (ast.Tuple, ast.List)) else [t]):
                        _VERS[src(n)] = _VERS.get(src(n), 0) + 1
        return conds

    _VERS.clear()
    _DEFS.clear()
    assigned = {}
    for n in ast.walk(fn):
        if isinstance(n, (ast.Assign, ast.AugAssign, ast.AnnAssign)):
            for t in (n.targets if isinstance(n, ast.Assign) else [n.target]):
                if isinstance(t, ast.Name):
                    assigned.setdefault(t.id, []).append(n)
        elif isinstance(n, (ast.For, ast.With, ast.NamedExpr)):
            for t in ast.walk(n.target if isinstance(n, (ast.For, ast.NamedExpr)) else ast.Tuple(elts=[i.optional_vars for i in n.items if i.optional_vars], ctx=ast.Store())):
                if isinstance(t, ast.Name):
                    assigned.setdefault(t.id, []).append(n)
    for name, sites in assigned.items():
        if len(sites) == 1 and isinstance(sites[0], ast.Assign) and len(sites[0].targets) == 1 and _is_boolean_expr(sites[0].value):
            # (only when nothing the expression reads is assigned in this function)
            reads = {x.id for x in ast.walk(sites[0].value) if isinstance(x, ast.Name)}
            if not (reads & set(assigned)):
                _DEFS[name] = sites[0].value
    end = walk(fn.body, [frozenset()])
    if end is not None:
        emit("RET None", end)
    out = []
    for o, c in rows:
        out.append({"out": o, "when": sorted(a if p_ else "!" + a for a, p_ in c)})
    return sorted(out, key=lambda r_: (r_["out"], r_["when"]))


def table_diff(got, want):
    """None when both tables decide the same; otherwise a sentence naming an outcome and an
    assignment of the conditions under which only one of them yields it"""
    def lits(row):
        return [(w[1:], False) if w.startswith("!") else (w, True) for w in row["when"]]
    atoms = sorted({a for t in (got, want) for r_ in t for a, _ in lits(r_)})
    outs = sorted({r_["out"] for t in (got, want) for r_ in t})
    if len(atoms) > 14:
        g = sorted((r_["out"], tuple(r_["when"])) for r_ in got)
        w = sorted((r_["out"], tuple(r_["when"])) for r_ in want)
        return None if g == w else f"{len(atoms)} conditions (compared as text): rows differ"
    def holds(t, out, asg):
        return any(r_["out"] == out and all(asg[a] == p_ for a, p_ in lits(r_)) for r_ in t)
    for out in outs:
        for m in range(1 << len(atoms)):
            asg = {a: bool(m >> i & 1) for i, a in enumerate(atoms)}
            hg, hw = holds(got, out, asg), holds(want, out, asg)
            if hg != hw:
                where = " ; ".join(a if asg[a] else "!" + a for a in atoms)
                return f"{'now' if hg else 'no longer'} `{out}` under [{where}]"
    return None


TABLES = json.load(open(os.path.join(os.path.dirname(os.path.abspath(__file__)), "c19_tables.json")))


def r7(mods):
    for modkey, cls_name, fname in TABLE_FUNCS:
        tree, path = mods[modkey]
        cls = find_class(tree, cls_name)
        fns = [n for n in (cls.body if cls else []) if isinstance(n, (ast.FunctionDef, ast.AsyncFunctionDef)) and n.name == fname]
        key = f"{cls_name}.{fname}"
        if not fns:
            undec("R7", f"table/{key}", rel(path), "function not found")
            continue
        # a property has a getter and a setter of the same name: check each
        for i, fn in enumerate(fns):
            k = key if len(fns) == 1 else f"{key}#{i+1}"
            got = decision_table(fn)
            want = TABLES.get(k)
            if want is None:
                undec("R7", f"table/{k}", loc(path, fn), "no reviewed table for this function")
                continue
            d = table_diff(got, want)
            check(d is None, "R7", f"table/{k}", loc(path, fn),
                  f"results and effects happen under exactly the reviewed conditions ({len(want)} reviewed rows, compared as boolean functions of the conditions)" + ("" if d is None else f"; {d}"))


# ---- R8 siblings and wiring that the other rules reach only for the requests hook ----
def r8(mods):
    # the tornado hook surfaces a gateway failure carried in the response (fetch(raise_error=False))
    # before it looks at the headers: `if response.error: raise response.error`
    tree, path = mods["tornado_hook"]
    mk = find_func(tree, "_make_request")
    if mk is None:
        undec("R4", "tornado/_make_request", rel(path), "function not found")
    else:
        pos_raise = pos_validate = None
        for i, st in enumerate(mk.body):
            if isinstance(st, ast.If) and src(st.test) == "response.error" and any(isinstance(x, ast.Raise) and x.exc is not None and src(x.exc) == "response.error" for x in st.body):
                pos_raise = i
            if "validate_headers(" in src(st) and pos_validate is None:
                pos_validate = i
        ok = pos_raise is not None and pos_validate is not None and pos_raise < pos_validate
        check(ok, "R4", "tornado/response-error-raised-before-headers", loc(path, mk),
              "the tornado hook raises response.error (a failure the transport reported in the response object) before validate_headers: it is counted by the fail-safe and retried directly")
    # the traffic filter is built with the block list and the allow list bound to the parameters of
    # those names (the constructor is called positionally by the package)
    itree, ipath = mods["init"]
    ttree, tpath = mods["traffic_filter"]
    cls = find_class(ttree, "TrafficFilter")
    ini = find_func(cls, "__init__") if cls else None
    calls = [n for n in ast.walk(itree) if isinstance(n, ast.Call) and src(n.func) == "TrafficFilter"]
    if ini is None or not calls:
        undec("R6", "wiring/traffic-filter-lists", rel(ipath), "TrafficFilter constructor or its call not found")
    else:
        params = [a.arg for a in ini.args.args][1:]
        for c in calls:
            bound = {}
            for i, a in enumerate(c.args):
                if i < len(params):
                    bound[params[i]] = src(a)
            for kw in c.keywords:
                bound[kw.arg] = src(kw.value)
            bad = [f"{k}={v}" for k, v in bound.items() if ("block" in v and "allow" in k) or ("allow" in v and "block" in k)]
            n_lists = sum(1 for v in bound.values() if "block_list" in v or "allow_list" in v)
            check(not bad and n_lists == 2, "R6", "wiring/traffic-filter-lists", loc(ipath, c),
                  f"the configured block list is bound to the block-list parameter and the allow list to the allow-list parameter ({bound})")


    # every hook asks the traffic filter about the host as a string (a URL without a host gives
    # None: the filter's string operations must see "None", which is simply not allowed, not raise
    # inside the application's call)
    n = 0
    for key in ("requests_hook", "aiohttp_hook", "tornado_hook"):
        htree, hpath = mods[key]
        for c in ast.walk(htree):
            if isinstance(c, ast.Call) and isinstance(c.func, ast.Attribute) and c.func.attr == "is_allowed" and src(c.func.value) == "self._traffic_filter":
                n += 1
                a0 = c.args[0] if c.args else None
                ok = isinstance(a0, ast.Call) and src(a0.func) == "str" and len(a0.args) == 1 and src(a0.args[0]).endswith(".host") and len(c.args) == 2
                check(ok, "R6", f"wiring/{key}/is_allowed-gets-the-host-as-str", loc(hpath, c),
                      f"is_allowed(str(<url>.host), <headers>) (found {src(c)[:90]})")
    check(n == 3, "R6", "wiring/hooks-consult-the-traffic-filter", "-", f"each of the three hooks consults the traffic filter once ({n} calls)")

    # the failure marker of the gateway is looked for in the RESPONSE's headers in every hook
    nv = 0
    for key in ("requests_hook", "aiohttp_hook", "tornado_hook"):
        htree, hpath = mods[key]
        for fn in ast.walk(htree):
            if not isinstance(fn, (ast.FunctionDef, ast.AsyncFunctionDef)):
                continue
            assigned = {}
            for st in ast.walk(fn):
                if isinstance(st, ast.Assign) and len(st.targets) == 1 and isinstance(st.targets[0], ast.Name):
                    assigned.setdefault(st.targets[0].id, []).append(st.value)
                if isinstance(st, ast.AnnAssign) and isinstance(st.target, ast.Name) and st.value is not None:
                    assigned.setdefault(st.target.id, []).append(st.value)
            params = {a.arg for a in fn.args.args + fn.args.kwonlyargs}

            def is_response(e, depth=0):
                # <resp>.headers where <resp> is a local bound to the result of a call (the request just made)
                if depth > 3:
                    return False
                if isinstance(e, ast.Name) and e.id in assigned and e.id not in params:
                    return all(is_response(v, depth + 1) for v in assigned[e.id])
                if isinstance(e, ast.Attribute) and e.attr == "headers" and isinstance(e.value, ast.Name):
                    vals = assigned.get(e.value.id, [])
                    return bool(vals) and e.value.id not in params and all(
                        isinstance(v, (ast.Call, ast.Await)) for v in vals)
                return False

            for c in ast.walk(fn):
                if isinstance(c, ast.Call) and isinstance(c.func, ast.Attribute) and c.func.attr == "validate_headers" and c.args:
                    # only direct children of this function (nested defs are visited on their own)
                    if enclosing_def(htree, c) is not fn:
                        continue
                    nv += 1
                    check(is_response(c.args[0]), "R4", f"{key}/{fn.name}/validate_headers-reads-the-response", loc(hpath, c),
                          f"validate_headers({src(c.args[0])}) is given the headers of the response object the call returned")
    check(nv >= 3, "R4", "hooks/validate_headers-calls", "-", f"{nv} validate_headers calls inspected in the three hooks")
    # the aiohttp hook counts every connection-level failure: the tuple handed to handle_on contains the
    # base class of aiohttp's connection errors (ClientConnectorError, ServerDisconnectedError, ClientOSError derive from it)
    atree, apath = mods["aiohttp_hook"]
    found = None
    for c in ast.walk(atree):
        if isinstance(c, ast.Call) and isinstance(c.func, ast.Attribute) and c.func.attr == "handle_on" and c.args:
            names = {src(e) for e in (c.args[0].elts if isinstance(c.args[0], (ast.Tuple, ast.List)) else [c.args[0]])}
            found = (c, names)
    if found is None:
        undec("R2", "aiohttp/handle_on", rel(apath), "handle_on call not found")
    else:
        c, names = found
        check(bool(names & {"ClientConnectionError", "ClientError", "aiohttp.ClientConnectionError", "aiohttp.ClientError"}), "R2",
              "aiohttp/handle_on-covers-the-connection-error-base", loc(apath, c),
              f"handle_on({sorted(names)}) includes ClientConnectionError (or ClientError): a dropped or reset gateway connection is counted and retried directly")
    # the tornado hook: its client raises HTTPClientError for HTTP-level failures and socket.gaierror when the
    # gateway's name does not resolve; both are registered as gateway failures
    ttree3, tpath3 = mods["tornado_hook"]
    found = None
    for c in ast.walk(ttree3):
        if isinstance(c, ast.Call) and isinstance(c.func, ast.Attribute) and c.func.attr == "handle_on" and c.args:
            names = {src(e).split(".")[-1] for e in (c.args[0].elts if isinstance(c.args[0], (ast.Tuple, ast.List)) else [c.args[0]])}
            found = (c, names)
    if found is None:
        undec("R2", "tornado/handle_on", rel(tpath3), "handle_on call not found")
    else:
        c, names = found
        check({"HTTPClientError", "gaierror"} <= names or "OSError" in names or "Exception" in names, "R2", "tornado/handle_on-covers-client-and-resolution-errors", loc(tpath3, c),
              f"handle_on({sorted(names)}) includes HTTPClientError and socket.gaierror")
    # the per-request exclusion header is looked up in lower case: the tornado hook hands the filter a
    # lower-cased copy of the headers (tornado's HTTPHeaders capitalises names)
    prep = find_func(ttree3, "_prepare_tornado_request")
    if prep is None:
        undec("R6", "tornado/_prepare_tornado_request", rel(tpath3), "function not found")
    else:
        ok = False
        for kw in [k for c in ast.walk(prep) if isinstance(c, ast.Call) for k in c.keywords]:
            if kw.arg == "original_headers":
                v = kw.value
                ok = isinstance(v, ast.DictComp) and "lower()" in src(v.key) or (isinstance(v, ast.Call) and "lower" in src(v))
        check(ok, "R6", "tornado/original-headers-lower-cased", loc(tpath3, prep),
              "original_headers is a copy of the headers with lower-cased names (the filter looks the exclusion header up in lower case)")
    # the shared FailSafe is built to count the gateway's own error marker (ProxyErrorException, raised by
    # validate_headers on x-lunar-error); the hooks add their transport errors
    itree2, ipath2 = mods["init"]
    lf = find_func(itree2, "_load_fail_safe")
    if lf is None:
        undec("R2", "init/_load_fail_safe", rel(ipath2), "function not found")
    else:
        ok = False
        for c in ast.walk(lf):
            if isinstance(c, ast.Call) and src(c.func) == "FailSafe":
                for kw in c.keywords:
                    if kw.arg == "handle_on" and "ProxyErrorException" in src(kw.value):
                        ok = True
        check(ok, "R2", "init/fail-safe-counts-ProxyErrorException", loc(ipath2, lf),
              "FailSafe(..., handle_on=(ProxyErrorException,)): a gateway answer marked x-lunar-error is counted and the call falls back to the provider")
    # the gateway marks every answer it generates by itself with x-lunar-error (that header is what
    # validate_headers counts): read from the directives of haproxy.cfg
    cfgp = os.path.join(REPO, "proxy/rootfs/etc/haproxy/haproxy.cfg")
    try:
        section, nans, unmarked = "", 0, []
        for ln, line in enumerate(open(cfgp), 1):
            words = line.split("#")[0].split() if '"' not in line else line.split()
            if not words:
                continue
            if words[0] in ("global", "defaults", "frontend", "backend", "listen"):
                section = " ".join(words[:2])
                continue
            if section not in ("frontend http-in", "frontend http-async-in"):
                continue
            gen = (words[:2] == ["http-request", "deny"] or words[0] == "http-error") and ("lf-string" in words or "string" in words)
            if gen:
                nans += 1
                if not any(w == "hdr" and i + 1 < len(words) and words[i + 1].lower() == "x-lunar-error" for i, w in enumerate(words)):
                    unmarked.append(f"haproxy.cfg:{ln}")
        check(nans >= 6 and not unmarked, "R4", "haproxy.cfg/gateway-generated-answers-carry-x-lunar-error", "proxy/rootfs/etc/haproxy/haproxy.cfg",
              f"each of the {nans} answers with a body that the gateway generates itself has `hdr x-lunar-error <n>` (not so: {unmarked})")
    except OSError as e:
        undec("R4", "haproxy.cfg", "proxy/rootfs/etc/haproxy/haproxy.cfg", f"cannot read: {e}")
    # a URL without a host is the application's problem, not a gateway failure
    htree2, hpath2 = mods["helpers"]
    gm = find_func(htree2, "generate_modified_headers")
    if gm is None:
        undec("R4", "helpers/generate_modified_headers", rel(hpath2), "function not found")
    else:
        bad = [src(x.exc)[:50] for x in ast.walk(gm) if isinstance(x, ast.Raise) and x.exc is not None and "ProxyErrorException" in src(x.exc)]
        nr = len([x for x in ast.walk(gm) if isinstance(x, ast.Raise)])
        check(not bad and nr >= 1, "R4", "helpers/generate_modified_headers/never-raises-the-gateway-error", loc(hpath2, gm),
              f"a host-less URL raises a plain exception ({nr} raise statements), never ProxyErrorException: the application's mistake must not open the circuit ({bad})")
    # values dropped from the allow list are collected per occurrence (list.remove removes one occurrence)
    ttree2, tpath2 = mods["traffic_filter"]
    cls2 = find_class(ttree2, "TrafficFilter")
    va = find_func(cls2, "_validate_allow") if cls2 else None
    if va is None:
        undec("R6", "traffic_filter/_validate_allow", rel(tpath2), "function not found")
    else:
        bad = []
        nrem = 0
        for loop in ast.walk(va):
            if isinstance(loop, ast.For) and any(isinstance(x, ast.Call) and isinstance(x.func, ast.Attribute) and x.func.attr == "remove" for x in ast.walk(loop)):
                nrem += 1
                it = loop.iter
                vals = []
                if isinstance(it, ast.Name):
                    for st in ast.walk(va):
                        if isinstance(st, ast.Assign) and any(isinstance(t, ast.Name) and t.id == it.id for t in st.targets):
                            vals.append(st.value)
                        if isinstance(st, ast.AnnAssign) and isinstance(st.target, ast.Name) and st.target.id == it.id and st.value is not None:
                            vals.append(st.value)
                else:
                    vals = [it]
                for v in vals:
                    if isinstance(v, (ast.Set, ast.SetComp, ast.Dict, ast.DictComp)) or (isinstance(v, ast.Call) and src(v.func) in ("set", "frozenset", "dict.fromkeys")):
                        bad.append(src(v)[:60])
        check(nrem >= 1 and not bad, "R6", "traffic_filter/_validate_allow/removes-every-occurrence", loc(tpath2, va),
              f"the unsupported values are walked as a list, one remove() per occurrence (set-like collections: {bad})")


def enclosing_def(tree, node):
    best = None
    for fn in ast.walk(tree):
        if isinstance(fn, (ast.FunctionDef, ast.AsyncFunctionDef)):
            if fn.lineno <= node.lineno <= (fn.end_lineno or fn.lineno):
                if best is None or fn.lineno >= best.lineno:
                    best = fn
    return best


TABLE_FUNCS = [
    ("traffic_filter", "TrafficFilter", "is_allowed"),
    ("traffic_filter", "TrafficFilter", "_check_if_host_or_ip_is_allowed"),
    ("traffic_filter", "TrafficFilter", "_check_allowed"),
    ("traffic_filter", "TrafficFilter", "_check_blocked"),
    ("traffic_filter", "TrafficFilter", "_check_for_header_based_filter"),
    ("traffic_filter", "TrafficFilter", "_is_external"),
    ("traffic_filter", "TrafficFilter", "is_access_list_valid"),
    ("traffic_filter", "TrafficFilter", "_validate_ip"),
    ("traffic_filter", "TrafficFilter", "_validate_host"),
    ("traffic_filter", "TrafficFilter", "_is_external_ip"),
    ("traffic_filter", "TrafficFilter", "_is_external_domain"),
    ("fail_safe", "FailSafe", "__exit__"),
    ("fail_safe", "FailSafe", "_on_error"),
    ("fail_safe", "FailSafe", "state_ok"),
    ("fail_safe", "FailSafe", "handle_on"),
    ("fail_safe", "FailSafe", "validate_headers"),
    ("fail_safe", "FailSafe", "_ensure_enter_fail_safe"),
    ("fail_safe", "FailSafe", "_ensure_exit_fail_safe"),
]


def main():
    tier = "quick"
    if "--tier" in sys.argv:
        tier = sys.argv[sys.argv.index("--tier") + 1]
    tier = os.environ.get("VERIF_TIER", tier) if "--tier" not in sys.argv else tier
    if "--gen-tables" in sys.argv:
        mods = load()
        out = {}
        for modkey, cls_name, fname in TABLE_FUNCS:
            tree, path = mods[modkey]
            cls = find_class(tree, cls_name)
            fns = [n for n in (cls.body if cls else []) if isinstance(n, (ast.FunctionDef, ast.AsyncFunctionDef)) and n.name == fname]
            for i, fn in enumerate(fns):
                out[f"{cls_name}.{fname}" if len(fns) == 1 else f"{cls_name}.{fname}#{i+1}"] = decision_table(fn)
        print(json.dumps(out, indent=1, sort_keys=True))
        return 0
    if "--explain" in sys.argv:
        print(open(sys.argv[sys.argv.index("--explain") + 1]).read())
        return 0
    t0 = time.time()
    try:
        mods = load()
    except Exception as e:  # parse / missing file
        undec("R0", "load", "-", f"cannot parse the interceptor sources: {e}")
        mods = None
    if mods:
        for rule in (r1, r2, r3, r4, r5, r6, r7, r8):
            try:
                rule(mods)
            except Exception as e:
                undec(rule.__name__.upper(), "analysis-error", "-", f"checker error: {type(e).__name__}: {e}")
    mins = {"R1": 6, "R2": 5, "R3": 4, "R4": 3, "R5": 3, "R6": 9}
    for rule, m in mins.items():
        n = len([o for o in obs if o["rule"] == f"{PROP}.{rule}"])
        if n < m:
            undec(rule, "instance-count", "-", f"rule matched {n} instances, hand-confirmed minimum {m}")
    # unique keys
    seen = {}
    for o in obs:
        k = o["key"]
        seen[k] = seen.get(k, 0) + 1
        if seen[k] > 1:
            o["key"] = f"{k}#{seen[k]}"
    known = {}
    try:
        for k in json.load(open(os.path.join(VERIF, "known_findings.json")))["findings"]:
            if k["property"] == PROP and k["status"] == "known":
                known[k["key"]] = k
    except FileNotFoundError:
        pass
    nv = nu = nk = nh = 0
    for o in obs:
        if o["verdict"] == "VIOLATION" and o["key"] in known:
            o["verdict"] = "KNOWN-FINDING"
            o["detail"] = known[o["key"]]["what"] + " || " + o["detail"]
    obs.sort(key=lambda o: o["key"])
    replay = os.path.join(OUT, "evidence", "replay")
    os.makedirs(replay, exist_ok=True)
    for f in os.listdir(replay):
        if f.startswith(PROP + "-"):
            os.remove(os.path.join(replay, f))
    print(f"== pycheck property={PROP} tier={tier} obligations={len(obs)}")
    i = 0
    for o in obs:
        v = o["verdict"]
        if v == "HOLDS":
            nh += 1
            print(f"ok    {o['key']}  [{o['where']}] {o['detail']}")
        elif v == "KNOWN-FINDING":
            nk += 1
            print(f"KNOWN-FINDING: property={PROP} {o['key']} [{o['where']}] {o['detail']}")
        else:
            i += 1
            if v == "UNDECIDED":
                nu += 1
                print(f"UNDECIDED property={PROP} {o['key']} [{o['where']}] {o['detail']}")
            else:
                nv += 1
            p = os.path.join(replay, f"{PROP}-{i}.json")
            json.dump({"property": PROP, "kind": v.lower(), "obligation": o}, open(p, "w"), indent=1)
            print(f"VIOLATION property={PROP} replay={p}")
            print(f"      rule={o['rule']} key={o['key']} at {o['where']}: {o['detail']}")
    ev = {
        "property_id": PROP, "tier": tier, "seed": int(os.environ.get("VERIF_SEED", "0") or 0), "level": "other",
        "coverage": {
            "explanation": "Decides structural necessary conditions of the interceptor fail-safe on the Python `ast` of the current tree (nothing is imported or run): "
                           "(R1) __exit__ swallows only handled gateway exceptions, counts only those, clears the counter only when no exception was in flight; "
                           "(R2) the circuit opens iff counter >= threshold (stamping the cool-down start) and closes only after elapsed >= cool-down, state_ok re-evaluates first; "
                           "(R3) each environment setting reaches the attribute it is compared through (data flow across configuration.py -> __init__.py -> FailSafe.__init__, not names); "
                           "(R4) the gateway call is inside the fail-safe context and guarded by state_ok and is_allowed, the direct call is outside; "
                           "(R5) every call that can raise in the call tree of TrafficFilter.is_allowed is lexically inside a covering try; "
                           "(R6) the private-range table (evaluated from its literals) maps each 2-character prefix to a network all of whose addresses start with it, and the verdict composition is allow-list / not blocked and external / unresolved => not routed. "
                           "NOT decided: breaker behaviour over all event sequences.",
            "rule": "obligation = (rule, anchored construct) on Python ast; comparison normal form over ast.Compare; cross-file keyword/attribute data flow; try/except coverage table",
            "obligations": len(obs), "discharged": nh + nk, "evaluations": sum(o["inspected"] for o in obs),
            "distinct_nontrivial": len([o for o in obs if o["inspected"] > 0]), "samples": obs[:200], "exhaustive": True,
            "known_findings": nk, "undecided": nu, "checker_cmd": " ".join(sys.argv),
            "trusted_base": ["CPython ast parser", "stdlib ipaddress (evaluating the network literals)", "hand-confirmed tables of raising callables and accepted handlers"],
            "files": [rel(os.path.join(BASE, p)) for p in FILES.values()],
        },
        "assumptions": ["verdict is a structural necessary condition, not the breaker's behaviour over event sequences", "no dynamic attribute access / monkey patching on the analysed paths"],
        "wall_s": time.time() - t0, "violations": nv + nu,
    }
    os.makedirs(os.path.join(OUT, "evidence"), exist_ok=True)
    json.dump(ev, open(os.path.join(OUT, "evidence", f"{PROP}.json"), "w"), indent=1)
    return 1 if nv + nu else 0


if __name__ == "__main__":
    sys.exit(main())
