package lunarcontext

import (
	"fmt"
	"io"
	"testing"
	"time"

	"github.com/rs/zerolog"
	"github.com/rs/zerolog/log"
)

// Probe for the expire watcher: with trace logging enabled the worker formats
// keysToRemove without the lock while transactions call AddKey.
func TestProbeExpireWatcherTraceRace(t *testing.T) {
	zerolog.SetGlobalLevel(zerolog.TraceLevel)
	log.Logger = zerolog.New(io.Discard)
	ew := newEW(func(key string) (int, error) { return 0, nil })
	deadline := time.Now().Add(iterationIdleTimeout + 5*time.Second)
	i := 0
	for time.Now().Before(deadline) {
		ew.AddKey(fmt.Sprintf("k%d", i%5000), time.Hour)
		i++
	}
}
