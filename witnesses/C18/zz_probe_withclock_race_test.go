package lunarcontext

import (
	"sync"
	"testing"
	"time"

	"lunar/toolkit-core/clock"
)

// Probe: WithClock (called by quota.newQuota for every new quota group, i.e. at
// request time) writes memoryState.clock without the mutex under which
// AtomicIncWindow of another transaction reads it.
func TestWProbeWithClockRace(t *testing.T) {
	st := NewMemoryState[int64]().WithClock(clock.NewRealClock())
	var wg sync.WaitGroup
	wg.Add(2)
	go func() {
		defer wg.Done()
		for i := 0; i < 2000; i++ {
			st.WithClock(clock.NewRealClock())
		}
	}()
	go func() {
		defer wg.Done()
		for i := 0; i < 2000; i++ {
			_, _, _ = st.AtomicIncWindow("k", 1, time.Minute, 1<<40)
		}
	}()
	wg.Wait()
}
