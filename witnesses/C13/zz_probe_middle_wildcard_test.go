package config

// Probe run by hand (not part of any check) at /repo 6415afd, package
// proxy/src/services/lunar-engine/config:
//
//	order a,b: a.com/x match=true norm="a.com/*" value=nil; a.com/x/b/y match=true norm="a.com/*" value=nil;
//	order b,a: a.com/x match=true norm="a.com/*" GET:a.com/* ; a.com/x/b/y match=true norm="a.com/*" GET:a.com/* ;
//	--- FAIL: outcome depends on declaration order
//
// With 14e8769 both orders are rejected ("wildcard is only allowed at the end of a URL").

import (
	"fmt"
	"testing"

	sharedConfig "lunar/shared-model/config"
)

func TestWMiddleWildcardOrder(t *testing.T) {
	a := sharedConfig.EndpointConfig{Method: "GET", URL: "a.com/*", Remedies: []sharedConfig.Remedy{{Name: "A", Enabled: true}}}
	b := sharedConfig.EndpointConfig{Method: "GET", URL: "a.com/*/b/*", Remedies: []sharedConfig.Remedy{{Name: "B", Enabled: true}}}
	show := func(order []sharedConfig.EndpointConfig) string {
		tree, err := BuildEndpointPolicyTree(order)
		if err != nil {
			return "ERR " + err.Error()
		}
		out := ""
		for _, u := range []string{"a.com/x", "a.com/x/b/y"} {
			res := tree.Lookup(u)
			out += fmt.Sprintf("%s match=%v norm=%q ", u, res.Match, res.NormalizedURL)
			if res.Value == nil {
				out += "value=nil; "
				continue
			}
			for m, p := range *res.Value {
				out += fmt.Sprintf("%v:%v ", m, p.URL)
			}
			out += "; "
		}
		return out
	}
	o1 := show([]sharedConfig.EndpointConfig{a, b})
	o2 := show([]sharedConfig.EndpointConfig{b, a})
	t.Logf("order a,b: %s", o1)
	t.Logf("order b,a: %s", o2)
	if o1 != o2 {
		t.Fatalf("outcome depends on declaration order")
	}
}
