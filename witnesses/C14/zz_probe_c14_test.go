package config_test

import (
	"bytes"
	"io"
	"net/http"
	"regexp"
	"sync"
	"testing"
	"time"

	"lunar/engine/config"
	sharedConfig "lunar/shared-model/config"
	contextmanager "lunar/toolkit-core/context-manager"
	"lunar/toolkit-core/urltree"
)

type probeProxy struct {
	mu        sync.Mutex
	endpoints map[string]struct{}
	deletes   chan string
}

func (p *probeProxy) RoundTrip(req *http.Request) (*http.Response, error) {
	body := ""
	if req.Body != nil {
		raw, _ := io.ReadAll(req.Body)
		body = string(raw)
	}
	p.mu.Lock()
	switch {
	case req.URL.Path == "/managed_endpoint" && req.Method == http.MethodPut:
		p.endpoints[body] = struct{}{}
	case req.URL.Path == "/managed_endpoint" && req.Method == http.MethodDelete:
		delete(p.endpoints, body)
		defer func() { p.deletes <- body }()
	}
	p.mu.Unlock()
	return &http.Response{StatusCode: 200, Body: io.NopCloser(bytes.NewReader(nil)), Header: http.Header{}, Request: req}, nil
}

func (p *probeProxy) isManaged(method, url string) bool {
	p.mu.Lock()
	defer p.mu.Unlock()
	for expression := range p.endpoints {
		if regexp.MustCompile(expression).MatchString(method + ":::" + url) {
			return true
		}
	}
	return false
}

func probePolicies(t *testing.T, urls ...string) *config.PoliciesData {
	t.Helper()
	policies := &sharedConfig.PoliciesConfig{}
	for _, u := range urls {
		policies.Endpoints = append(policies.Endpoints, sharedConfig.EndpointConfig{
			URL: u, Method: "GET",
			Remedies: []sharedConfig.Remedy{{Enabled: true, Name: "r-" + u, Config: sharedConfig.RemedyConfig{
				FixedResponse: &sharedConfig.FixedResponseConfig{StatusCode: 418}}}},
		})
	}
	data, err := config.BuildPolicyData(policies, false)
	if err != nil {
		t.Fatal(err)
	}
	return data
}

func engineHandles(data *config.PoliciesData, method, url string) bool {
	lookup := data.EndpointPolicyTree.Lookup(url)
	if !lookup.Match || lookup.Value == nil {
		return false
	}
	policy, found := (*lookup.Value)[urltree.Method(method)]
	return found && len(policy.Remedies) > 0
}

// (1) request URL with a trailing slash, (2) host parameter, (2b) host wildcard, (2c) empty path-parameter segment
func TestProbeExpressionVsEngine(t *testing.T) {
	for _, c := range []struct{ pattern, url string }{
		{"api.example.com/orders", "api.example.com/orders/"},
		{"{sub}.example.com/orders", "eu.example.com/orders"},
		{"api.example.*", "api.example.org/orders"},
		{"api.example.com/users/{id}/orders", "api.example.com/users//orders"}, // (2c) an empty segment in the place of a path parameter
	} {
		data := probePolicies(t, c.pattern)
		req := config.BuildHAProxyEndpointsRequest(&data.Config)
		proxy := &probeProxy{endpoints: map[string]struct{}{}, deletes: make(chan string, 8)}
		for _, e := range req.ManagedEndpoints {
			proxy.endpoints[e.Endpoint] = struct{}{}
		}
		if engineHandles(data, "GET", c.url) && !proxy.isManaged("GET", c.url) {
			t.Errorf("pattern %q: the engine applies its remedy to GET %s but the registered expressions %v do not match it", c.pattern, c.url, req.ManagedEndpoints[0].Endpoint)
		}
	}
}

// (3) an endpoint removed by one reload and re-added by the next within the delay
func TestProbeDelayedUnmanageAfterReAdd(t *testing.T) {
	ctxManager := contextmanager.Get()
	ctxManager.SetMockClock()
	defer ctxManager.SetRealClock()
	mockClock := ctxManager.GetMockClock()
	proxy := &probeProxy{endpoints: map[string]struct{}{}, deletes: make(chan string, 8)}
	prev := http.DefaultClient.Transport
	http.DefaultClient.Transport = proxy
	defer func() { http.DefaultClient.Transport = prev }()

	with := probePolicies(t, "api.example.com/a", "api.example.com/b")
	without := probePolicies(t, "api.example.com/a")
	if err := config.ManageHAProxyEndpoints(config.BuildHAProxyEndpointsRequest(&with.Config)); err != nil {
		t.Fatal(err)
	}
	accessor := config.NewTxnPoliciesAccessor(with)
	if err := accessor.UpdatePoliciesData(without, false); err != nil { // removes /b, unmanage scheduled
		t.Fatal(err)
	}
	mockClock.AdvanceTime(10 * time.Second)
	again := probePolicies(t, "api.example.com/a", "api.example.com/b")
	if err := accessor.UpdatePoliciesData(again, false); err != nil { // /b is back
		t.Fatal(err)
	}
	if !proxy.isManaged("GET", "api.example.com/b") {
		t.Fatal("b should be managed right after it was re-added")
	}
	deadline := time.Now().Add(10 * time.Second)
	done := false
	for !done && time.Now().Before(deadline) {
		mockClock.AdvanceTime(31 * time.Second)
		select {
		case <-proxy.deletes:
			done = true
		case <-time.After(5 * time.Millisecond):
		}
	}
	if engineHandles(accessor.GetCurrentPoliciesData(), "GET", "api.example.com/b") && !proxy.isManaged("GET", "api.example.com/b") {
		t.Errorf("GET api.example.com/b is configured again, but the unmanage scheduled by the earlier reload deleted its expression from the proxy")
	}
}
