package config

// Witness for the C14.R5 finding repaired by commit 0bb892c (run by hand at the
// parent commit: place in proxy/src/services/lunar-engine/config/ and
// `go test -vet=off -count=1 ./config/ -run TestProbeUnmanageDifference`).
// Not part of any check.

import (
	"testing"

	sharedConfig "lunar/shared-model/config"

	"github.com/samber/lo"
)

// The same policies loaded twice: nothing should be scheduled for unmanaging.
func TestProbeUnmanageDifference(t *testing.T) {
	cfg := &sharedConfig.PoliciesConfig{
		Endpoints: []sharedConfig.EndpointConfig{{
			Method: "GET", URL: "api.com/users/{id}",
			Remedies: []sharedConfig.Remedy{{Enabled: true, Name: "r"}},
		}},
	}
	prev := BuildHAProxyEndpointsRequest(cfg)
	next := BuildHAProxyEndpointsRequest(cfg)
	toRemove, _ := lo.Difference(prev.ManagedEndpoints, next.ManagedEndpoints)
	for _, e := range toRemove {
		t.Errorf("endpoint %q is still configured but would be unmanaged after the reload", e.Endpoint)
	}
	if len(prev.ManagedEndpoints) == 0 {
		t.Fatal("probe built no endpoints")
	}
}
