package streams

// Probe run by hand at /repo 7c7b4b6 (panic) and with the repair (no panic); adapted from the
// demonstration of seeded change C05-m22.
//
// A request flow answers the request itself (early response).  The engine then
// walks the response flows of the same transaction with the API stream switched
// to the response type although no response message exists (Response == nil).
// The flow's filter restricts the HTTP method, so the filter tree asks the API
// stream for its method during that second lookup.
//
// Place at: proxy/src/services/lunar-engine/streams/zz_demo_c05_m22_test.go
// Run:      go test -vet=off -count=1 -run TestDemoC05M22 ./streams/

import (
	"os"
	"path/filepath"
	"testing"

	lunar_messages "lunar/engine/messages"
	stream_config "lunar/engine/streams/config"
	test_processors "lunar/engine/streams/flow/test-processors"
	lunar_context "lunar/engine/streams/lunar-context"
	stream_types "lunar/engine/streams/types"

	"github.com/stretchr/testify/require"
)

const probeFlow = `name: DemoM22EarlyResponseWithMethodFilter

filter:
  url: "demo-m22.example.com/early"
  status_code:
    - 200

processors:
  removePII:
    processor: removePII
    parameters:
      - key: ParameterKey
        value: ParameterValue

  generateResponse:
    processor: generateResponse
    parameters:
      - key: ParameterKey
        value: ParameterValue

  LogAPM:
    processor: LogAPM
    parameters:
      - key: ParameterKey
        value: ParameterValue

flow:
  request:
    - from:
        stream:
          name: globalStream
          at: start
      to:
        processor:
          name: removePII

    - from:
        processor:
          name: removePII
      to:
        processor:
          name: generateResponse

  response:
    - from:
        stream:
          name: globalStream
          at: start
      to:
        processor:
          name: LogAPM

    - from:
        processor:
          name: generateResponse
      to:
        processor:
          name: LogAPM

    - from:
        processor:
          name: LogAPM
      to:
        stream:
          name: globalStream
          at: end
`

func TestWProbeEarlyResponseOnFlowWithStatusFilter(t *testing.T) {
	dir := t.TempDir()
	require.NoError(t, os.WriteFile(filepath.Join(dir, "flow.yaml"), []byte(probeFlow), 0o644))
	t.Setenv("LUNAR_FLOWS_PATH_PARAM_CONFIG", filepath.Join(dir, "path_params_out.yaml"))

	procMng := createTestProcessorManagerWithFactories(
		t,
		[]string{"removePII", "generateResponse", "LogAPM"},
		test_processors.NewMockProcessor,
		test_processors.NewMockGenerateResponseProcessor,
		test_processors.NewMockProcessor,
	)
	stream, err := NewStream()
	require.NoError(t, err)
	stream.processorsManager = procMng

	defer revertFlowRepDirectory(setFlowRepDirectory(dir))
	// the configuration is accepted ...
	require.NoError(t, stream.Initialize(), "the flow must be accepted by the loader")

	globalContext := lunar_context.NewContextManager().GetGlobalContext()
	require.NoError(t, globalContext.Set(test_processors.GlobalKeyExecutionOrder, []string{}))

	// ... and a plain request message (exactly what routing.processRequest builds:
	// a request API stream, there is no response yet) must be handled safely.
	apiStream := stream_types.NewRequestAPIStream(lunar_messages.OnRequest{
		ID:         "demo-m22-1",
		SequenceID: "demo-m22-1",
		Method:     "GET",
		Scheme:     "https",
		URL:        "demo-m22.example.com/early",
		Headers:    map[string]string{},
	}, sharedState)
	flowActions := &stream_config.StreamActions{
		Request:  &stream_config.RequestStream{},
		Response: &stream_config.ResponseStream{},
	}

	var execErr error
	panicked := func() (p any) {
		defer func() { p = recover() }()
		execErr = stream.ExecuteFlow(apiStream, flowActions)
		return nil
	}()
	require.Nil(t, panicked, "handling a transaction with an accepted configuration must not panic")
	require.NoError(t, execErr)

	// (with the repair the status-constrained flow is not selected for the response walk, since no
	// status exists yet; before it, the lookup panicked: invalid memory address or nil pointer dereference)
}
