package validation

// C05 probe: bounded-execution property.
// Parent tests re-exec this test binary as a child (C05_CHILD=<scenario>) so that a
// stack overflow (fatal, unrecoverable) kills only the child; parent reports what happened.

import (
	"bytes"
	"context"
	"fmt"
	"os"
	"os/exec"
	"runtime/debug"
	"strings"
	"testing"
	"time"

	lunar_messages "lunar/engine/messages"
	"lunar/engine/streams"
	stream_config "lunar/engine/streams/config"
	lunar_context "lunar/engine/streams/lunar-context"
	stream_types "lunar/engine/streams/types"

	"github.com/rs/zerolog"
)

const childEnv = "C05_CHILD"

// TestC05Child is the body executed in the subprocess.
func TestC05Child(t *testing.T) {
	scenario := os.Getenv(childEnv)
	if scenario == "" {
		t.Skip("child only")
	}
	zerolog.SetGlobalLevel(zerolog.DebugLevel)
	// production limit is 1GB; lower it only so that unbounded recursion dies quickly
	debug.SetMaxStack(8 << 20)

	clean := setEnvironmentForTest(scenario)
	defer clean()

	fmt.Println("C05: running standalone validator")
	err := NewValidator().Validate()
	if err != nil {
		fmt.Printf("C05: VALIDATOR REJECTED: %v\n", err)
		return
	}
	fmt.Println("C05: VALIDATOR ACCEPTED")

	fmt.Println("C05: loading via streams.NewStream().Initialize()")
	stream, err := streams.NewStream()
	if err != nil {
		fmt.Printf("C05: NewStream error: %v\n", err)
		return
	}
	if err = stream.Initialize(); err != nil {
		fmt.Printf("C05: LOAD REJECTED: %v\n", err)
		return
	}
	fmt.Println("C05: LOAD OK")

	// same constructor the engine uses for an incoming request
	apiStream := stream_types.NewRequestAPIStream(lunar_messages.OnRequest{
		ID: "1", SequenceID: "1", Method: "GET", Scheme: "https",
		URL: "example.com/x", Headers: map[string]string{},
	}, lunar_context.NewMemoryState[[]byte]())
	actions := &stream_config.StreamActions{
		Request:  &stream_config.RequestStream{},
		Response: &stream_config.ResponseStream{},
	}
	fmt.Println("C05: executing request through Stream.ExecuteFlow")
	err = stream.ExecuteFlow(apiStream, actions)
	fmt.Printf("C05: EXECUTE RETURNED err=%v reqActions=%d respActions=%d\n",
		err, len(actions.Request.Actions), len(actions.Response.Actions))
	for _, a := range actions.Request.Actions {
		fmt.Printf("C05: req action %T\n", a)
	}
}

func runChild(t *testing.T, scenario string) (string, error) {
	ctx, cancel := context.WithTimeout(context.Background(), 120*time.Second)
	defer cancel()
	cmd := exec.CommandContext(ctx, os.Args[0], "-test.run=^TestC05Child$", "-test.v")
	cmd.Env = append(os.Environ(), childEnv+"="+scenario)
	var out bytes.Buffer
	cmd.Stdout = &out
	cmd.Stderr = &out
	err := cmd.Run()
	return out.String(), err
}

func summarize(t *testing.T, scenario string) {
	out, err := runChild(t, scenario)
	var c05 []string
	overflow := ""
	frames := map[string]int{}
	executed := strings.Count(out, "Executed processor ")
	for _, line := range strings.Split(out, "\n") {
		if strings.HasPrefix(line, "C05:") {
			c05 = append(c05, line)
		}
		if strings.Contains(line, "goroutine stack exceeds") || strings.HasPrefix(line, "fatal error:") {
			overflow += line + "\n"
		}
		if strings.HasPrefix(line, "lunar/engine/") {
			name := line
			if i := strings.LastIndex(name, "("); i > 0 {
				name = name[:i]
			}
			frames[name]++
		}
	}
	t.Logf("scenario=%s child exit error=%v", scenario, err)
	for _, l := range c05 {
		t.Log(l)
	}
	t.Logf("processor executions logged by engine in child: %d", executed)
	if overflow != "" {
		t.Logf("FATAL in child:\n%s", overflow)
		for f, n := range frames {
			if n > 5 {
				t.Logf("  repeated frame x%d: %s", n, f)
			}
		}
	}
}

func TestC05_A1_RootlessResponseCycle(t *testing.T)          { summarize(t, "c05-a1") }
func TestC05_A2_RootedResponseUnreachableCycle(t *testing.T) { summarize(t, "c05-a2") }
func TestC05_B_MutualFlowReferences(t *testing.T)            { summarize(t, "c05-b") }
func TestC05_B2_MutualFlowReferencesFromFlow(t *testing.T)   { summarize(t, "c05-b2") }
