//go:build !pro

package runner_test

// Probe run by hand (not part of any check) at /repo 129ad79, package
// proxy/src/services/lunar-engine/runner.
//
// A cached response (TTL 10 s, stored at t=0) is replayed for a request at
// t=9.9 s. DispatchOnRequest then runs the response remedies on that replay
// inside the engine (obtainModifiedEarlyResponse); the caching remedy's
// OnResponse reads the clock again, finds the entry expired by now (time
// passes between the two reads - here 200 ms per read, in production
// microseconds) and stores the replayed body with a fresh 10 s. A request at
// t=15 s is answered from memory with a provider response that is 15 s old.

import (
	"testing"
	"time"

	"lunar/engine/config"
	lunarMessages "lunar/engine/messages"
	"lunar/engine/runner"
	"lunar/engine/services"
	"lunar/engine/services/remedies"
	sharedConfig "lunar/shared-model/config"
	"lunar/toolkit-core/clock"
)

// tickingClock: every reading of the time is followed by `step` of elapsed time.
type tickingClock struct {
	*clock.MockClock
	step time.Duration
}

func (c *tickingClock) Now() time.Time {
	now := c.MockClock.Now()
	if c.step > 0 {
		c.MockClock.AdvanceTime(c.step)
	}
	return now
}

func TestWReplayedResponseStoredAgain(t *testing.T) {
	clk := &tickingClock{MockClock: clock.NewMockClock()}
	endpoint := sharedConfig.EndpointConfig{
		Method: "GET", URL: "twitter.com/user/1234/messages",
		Remedies: []sharedConfig.Remedy{{
			Name: "cache", Enabled: true,
			Config: sharedConfig.RemedyConfig{Caching: &sharedConfig.CachingConfig{
				TTLSeconds: 10, MaxRecordSizeBytes: 1000, MaxCacheSizeMegabytes: 1,
			}},
		}},
	}
	policyTree, err := config.BuildEndpointPolicyTree([]sharedConfig.EndpointConfig{endpoint})
	if err != nil {
		t.Fatal(err)
	}
	svc, err := services.Initialize(newMockWriter(), proxyTimeout, sharedConfig.Exporters{})
	if err != nil {
		t.Fatal(err)
	}
	svc.Remedies.CachingPlugin = remedies.NewCachingPlugin(clk)
	policies := &sharedConfig.PoliciesConfig{Endpoints: []sharedConfig.EndpointConfig{endpoint}}
	worker := runner.NewDiagnosisWorker()

	request := func(id string) lunarMessages.OnRequest {
		return lunarMessages.OnRequest{
			ID: id, SequenceID: id, Method: "GET", Scheme: "http",
			URL: "twitter.com/user/1234/messages", Path: "/user/1234/messages",
			Headers: map[string]string{"host": "twitter.com"}, Time: clk.MockClock.Now(),
		}
	}
	isReplay := func(id string) bool {
		t.Helper()
		acts, err := runner.DispatchOnRequest(request(id), policyTree, policies, svc, worker)
		if err != nil {
			t.Fatal(err)
		}
		for _, a := range acts {
			if a.Name == "return_early_response" {
				return true
			}
		}
		return false
	}

	// t=0: the provider's response is stored
	t0 := clk.MockClock.Now()
	_, err = runner.DispatchOnResponse(lunarMessages.OnResponse{
		ID: "1", SequenceID: "1", Method: "GET", URL: "twitter.com/user/1234/messages",
		Status: 200, Headers: map[string]string{}, Body: "body-v1", Time: clk.MockClock.Now(),
	}, policyTree, &policies.Global, svc, worker)
	if err != nil {
		t.Fatal(err)
	}

	// t=9.9 s: fresh, replayed; time passes while the engine handles it
	clk.MockClock.AdvanceTime(9900 * time.Millisecond)
	clk.step = 200 * time.Millisecond
	if !isReplay("2") {
		t.Fatal("a fresh entry should be replayed")
	}
	clk.step = 0

	// t=15 s: the only provider response ever seen is 15 s old, the TTL is 10 s
	clk.MockClock.AdvanceTime(t0.Add(15 * time.Second).Sub(clk.MockClock.Now()))
	if isReplay("3") {
		t.Fatalf("a provider response stored at t=0 with a TTL of 10 s answered a request at about t=15 s")
	}
}
