package discovery

// Probe run by hand (not part of any check) at /repo 129ad79, package
// proxy/src/services/aggregation-output-plugin/discovery:
//
//	--- FAIL: TestWGenerateRequestLineIsCounted
//	    a transaction whose authentication remedy generated a request is dropped from discovery:
//	    failed parsing JSON - RemedyReqRunResult generate_request is not recognized
//
// With 267c377 it passes.
//
// The engine writes the run result of every active remedy into the access log.
// An authentication remedy that obtains an OAuth token answers with a
// GenerateRequestAction, whose run result is spelled "generate_request"
// (RemedyReqRunResult.String). ParseRemedyReqRunResult had no case for it, so the
// whole access-log line failed to decode and the transaction was missing from
// discovery.

import (
	"testing"

	sharedActions "lunar/shared-model/actions"
)

func TestWGenerateRequestLineIsCounted(t *testing.T) {
	line := `{"timestamp":1675697113071,"duration":190,"total_duration":100,"method":"GET",` +
		`"host":"httpbin.org","url":"httpbin.org/anything","status_code":200,` +
		`"request_active_remedies":{"authentication":["` + sharedActions.ReqGenerateRequest.String() + `"]},` +
		`"response_active_remedies":{}}`
	res, err := decodeRecord(map[any]any{"message": []byte(line)})
	if err != nil || res == nil || !res.decoded {
		t.Fatalf("a transaction whose authentication remedy generated a request is dropped from discovery: %v", err)
	}
}
