package streamfilter

import (
	"testing"

	internaltypes "lunar/engine/streams/internal-types"

	lunar_messages "lunar/engine/messages"
	stream_config "lunar/engine/streams/config"
	stream_flow "lunar/engine/streams/flow"
	lunar_context "lunar/engine/streams/lunar-context"
	public_types "lunar/engine/streams/public-types"
	stream_types "lunar/engine/streams/types"
)

func probeStream(url string) public_types.APIStreamI {
	apiStream := stream_types.NewAPIStream("s", public_types.StreamTypeRequest, sharedState)
	apiStream.SetRequest(stream_types.NewRequest(lunar_messages.OnRequest{
		Method: "GET", Scheme: "https", URL: url, Headers: map[string]string{},
	}))
	apiStream.SetContext(lunar_context.NewLunarContext(lunar_context.NewContext()))
	return apiStream
}

func probeNames(t *testing.T, tree internaltypes.FilterTreeI, url string) []string {
	res, found := tree.GetFlow(probeStream(url))
	if !found {
		return nil
	}
	flows, _ := res.GetUserFlow()
	var names []string
	for _, f := range flows {
		names = append(names, f.GetName())
	}
	return names
}

func probeTree(t *testing.T, order []string) internaltypes.FilterTreeI {
	tree := NewFilterTree()
	for _, u := range order {
		f := stream_flow.NewFlow(nil, &stream_config.FlowRepresentation{Name: "flow:" + u, Filter: createFilter("f:"+u, u, 0)}, nil)
		if err := tree.AddFlow(f); err != nil {
			t.Fatal(err)
		}
	}
	return tree
}

// A flow declared on host.com/x must not run for host.com/other, whatever the
// order in which the flows were loaded.
func TestProbeMergeIntoWildcardNode(t *testing.T) {
	for _, order := range [][]string{
		{"host.com/x", "host.com/x/y", "host.com/*"},
		{"host.com/*", "host.com/x/y", "host.com/x"},
	} {
		got := probeNames(t, probeTree(t, order), "host.com/other")
		for _, n := range got {
			if n != "flow:host.com/*" {
				t.Errorf("load order %v: request host.com/other runs %v", order, got)
			}
		}
	}
}
