package runner_test

// Probe run by hand (not part of any check) at /repo 267c377, package
// proxy/src/services/lunar-engine/runner (adapted from the probe of the author
// of seeded change C17-m30, who noticed the aliasing):
//
//	--- FAIL: attempts=2, but the gateway asked for a retry 7 times in one sequence
//
// With 2662060 it passes. An endpoint has response_based_throttling and retry
// (attempts 2). The provider's 429 is stored by the throttling remedy with
// onResponse.Headers itself; the retry remedy then writes x-lunar-retry-after
// into that very map. Every later request of the sequence is answered from
// memory with the stale header, i.e. asks for another retry.

import (
	"fmt"
	"strings"
	"testing"
	"time"

	"lunar/engine/config"
	lunarMessages "lunar/engine/messages"
	"lunar/engine/runner"
	"lunar/engine/services"
	sharedConfig "lunar/shared-model/config"
)

func TestProbeAliasThrottlingRetry(t *testing.T) {
	policyTree, err := config.BuildEndpointPolicyTree(
		[]sharedConfig.EndpointConfig{{
			Method: "GET",
			URL:    "api.probe.com/orders",
			Remedies: []sharedConfig.Remedy{
				{
					Name: "rbt", Enabled: true,
					Config: sharedConfig.RemedyConfig{
						ResponseBasedThrottling: &sharedConfig.ResponseBasedThrottlingConfig{
							RetryAfterHeader: "retry-after",
							RetryAfterType:   sharedConfig.RetryAfterRelativeSeconds,
							RelevantStatuses: []int{429},
						},
					},
				},
				{
					Name: "retry", Enabled: true,
					Config: sharedConfig.RemedyConfig{
						Retry: &sharedConfig.RetryConfig{
							Attempts: 2, InitialCooldownSeconds: 1, CooldownMultiplier: 1,
							Conditions: sharedConfig.RetryConfigConditions{
								StatusCode: []sharedConfig.Range[int]{{From: 429, To: 429}},
							},
						},
					},
				},
			},
		}},
	)
	if err != nil {
		t.Fatal(err)
	}
	policiesConfig := &sharedConfig.PoliciesConfig{Global: *globalPolicies()}
	svc, err := services.Initialize(newMockWriter(), proxyTimeout, sharedConfig.Exporters{})
	if err != nil {
		t.Fatal(err)
	}
	dw := runner.NewDiagnosisWorker()

	respActions, err := runner.DispatchOnResponse(lunarMessages.OnResponse{
		ID: "S", SequenceID: "S", Method: "GET", URL: "api.probe.com/orders", Status: 429,
		Headers: map[string]string{"retry-after": "600"}, Time: time.Now(),
	}, policyTree, &policiesConfig.Global, svc, dw)
	if err != nil {
		t.Fatal(err)
	}
	t.Logf("provider 429 -> %v", respActions)

	retriesAsked := 1 // the provider's 429 itself was answered with a retry request
	for i := 1; i <= 6; i++ {
		acts, err := runner.DispatchOnRequest(lunarMessages.OnRequest{
			ID: fmt.Sprintf("S-%d", i), SequenceID: "S", Method: "GET", Scheme: "https",
			URL: "api.probe.com/orders", Path: "/orders",
			Headers: map[string]string{"host": "api.probe.com"}, Time: time.Now(),
		}, policyTree, policiesConfig, svc, dw)
		if err != nil {
			t.Fatal(err)
		}
		for _, a := range acts {
			if a.Name == "response_headers" {
				asked := strings.Contains(fmt.Sprint(a.Value), "x-lunar-retry-after")
				t.Logf("request %d: early response headers: %q retryAsked=%v", i, a.Value, asked)
				if asked {
					retriesAsked++
				}
			}
		}
	}
	if retriesAsked > 2 {
		t.Fatalf("attempts=2, but the gateway asked for a retry %d times in one sequence", retriesAsked)
	}
}
